----------------------------- MODULE MC_Machine -----------------------------
(***************************************************************************)
(* Bounded models over Machine.tla (the instruction-level specification):  *)
(*   C04  operand forms resolve to the architecturally correct location    *)
(*   C05  data transfer and stack instructions; LIFO against a reference   *)
(*   C07  string instructions and the REP invocation protocol              *)
(*   C09  every instruction is total and stays inside the 1 MiB            *)
(* The operators checked here (Exec, Addr, Offset, Body, ExecRepInvoke...) *)
(* are the very ones the trace specification TraceStep.tla evaluates on    *)
(* every step recorded from the real interpreter.                          *)
(***************************************************************************)
EXTENDS Machine, Json, FiniteSets

VARIABLES mode,     \* which sub-model this behaviour belongs to
          s,        \* machine state record (regs, flags, mem, bg, stack)
          aux,      \* per-model bookkeeping record
          hist      \* generator only: the abstract instructions executed so far
vars == <<mode, s, aux, hist>>

CONSTANTS MaxDepth,     \* C05: length of push/pop histories
          MaxCX,        \* C07: CX values 0 .. MaxCX
          Gen           \* TRUE: print every complete history as a REPLAY line

L6 == {0, 1, 32767, 32768, 65534, 65535}
SegVals == {0, 1, 4095, 4096, 61440, 65535}

Apply(st, r) == [st EXCEPT !.regs = r.regs, !.flags = r.flags, !.mem = r.writes @@ st.mem,
                           !.stack = r.stack]

Regs0 == [n \in RegNames |-> 0]
MkState(regs, flags, bgseed) == [regs |-> regs, flags |-> flags, mem |-> << >>, bg |-> bgseed, stack |-> << >>]

R8(r)  == [k |-> "reg8", r |-> r]
R16(r) == [k |-> "reg16", r |-> r]
SR(r)  == [k |-> "sreg", r |-> r]
Imm(v) == [k |-> "imm", v |-> v]
Mem(seg, base, index, disp) == [k |-> "mem", seg |-> seg, base |-> base, index |-> index, disp |-> disp]
Lbl(off) == [k |-> "label", name |-> "l", off |-> off]

(***************************************************************************)
(* C04                                                                     *)
(***************************************************************************)
Disps == {0, 1, 2, -1, -2, 32767, -32768, 65535, 255, -256}
SegOv == {"", "es", "cs", "ss", "ds"}
Forms ==
     {Mem(sg, "", "", d) : sg \in SegOv, d \in {0, 1, 65535, 65534, 32768, 4660}}
  \cup {Mem(sg, b, "", 0) : sg \in SegOv, b \in {"bx", "bp"}}
  \cup {Mem(sg, "", i, 0) : sg \in SegOv, i \in {"si", "di"}}
  \cup {Mem(sg, b, "", d) : sg \in SegOv, b \in {"bx", "bp"}, d \in Disps}
  \cup {Mem(sg, "", i, d) : sg \in SegOv, i \in {"si", "di"}, d \in Disps}
  \cup {Mem(sg, b, i, d) : sg \in SegOv, b \in {"bx", "bp"}, i \in {"si", "di"}, d \in Disps}
  \cup {Lbl(o) : o \in {0, 1, 255, 65535, 65534, 4660}}

\* register files explored inside the invariant for a given form
RegFiles(f) ==
  LET bs == IF f.k = "mem" /\ f.base # "" THEN L6 ELSE {21845}
      is == IF f.k = "mem" /\ f.index # "" THEN L6 ELSE {4660}
  IN {[Regs0 EXCEPT !["bx"] = b, !["bp"] = b, !["si"] = i, !["di"] = i,
                    !["ds"] = sv, !["ss"] = (sv + 7) % 65536, !["es"] = (sv + 11) % 65536,
                    !["cs"] = (sv + 13) % 65536, !["ax"] = 43981, !["cx"] = 4369, !["dx"] = 8738,
                    !["sp"] = 256] : b \in bs, i \in is, sv \in SegVals}

InitC04 == mode = "c04" /\ s = << >> /\ aux = [form |-> << >>] /\ hist = << >>
NextC04 == mode = "c04" /\ aux.form = << >> /\ \E f \in Forms : aux' = [form |-> f] /\ UNCHANGED <<mode, s, hist>>

SumParts(regs, f) ==
  IF f.k = "label" THEN f.off
  ELSE (IF f.base = "" THEN 0 ELSE regs[f.base]) + (IF f.index = "" THEN 0 ELSE regs[f.index]) + f.disp

C04Addressing ==
  (mode = "c04" /\ aux.form # << >>) =>
  LET f == aux.form IN
  \A regs \in RegFiles(f) :
    LET st == MkState(regs, 2, 7)
        off == Offset(regs, f)
        sgn == SegOf(f)
        a == Addr(regs, f)
        direct == Mem(sgn, "", "", off)        \* the same location written as seg:[offset]
    IN \* the offset is the 16-bit sum of the parts; default and override segments
       /\ off \in Word /\ (off - SumParts(regs, f)) % 65536 = 0
       /\ sgn = (IF f.k = "label" THEN "ds"
                 ELSE IF f.seg # "" THEN f.seg ELSE IF f.base = "bp" THEN "ss" ELSE "ds")
       /\ a \in 0 .. MB - 1 /\ (a - (regs[sgn] * 16 + off)) % MB = 0
       /\ Addr(regs, direct) = a
       \* loads read exactly there, low byte first
       /\ Val(st, f, 8) = Bg(7, a)
       /\ Val(st, f, 16) = Bg(7, a) + 256 * Bg(7, (a + 1) % MB)
       \* stores (byte / word) write exactly there and nowhere else; read back through the
       \* direct form gives the stored value
       /\ LET r == Exec(st, [cls |-> "mov", w |-> 8, dst |-> f, src |-> R8("al")], 0)
              st2 == Apply(st, r)
          IN /\ DOMAIN r.writes = {a} /\ r.writes[a] = Lo(regs["ax"])
             /\ Val(st2, direct, 8) = Lo(regs["ax"]) /\ r.regs = regs /\ r.flags = 2
       /\ LET r == Exec(st, [cls |-> "mov", w |-> 16, dst |-> f, src |-> R16("ax")], 0)
              st2 == Apply(st, r)
          IN /\ DOMAIN r.writes = {a, (a + 1) % MB}
             /\ r.writes[a] = Lo(regs["ax"]) /\ r.writes[(a + 1) % MB] = Hi(regs["ax"])
             /\ Val(st2, direct, 16) = regs["ax"]
             /\ WritesInRange(r)
       \* read-modify-write stays on the same cell
       /\ LET r == Exec(st, [cls |-> "unarith", op |-> "inc", w |-> 8, dst |-> f], 0)
          IN DOMAIN r.writes = {a} /\ r.writes[a] = (Bg(7, a) + 1) % 256
       /\ LET r == Exec(st, [cls |-> "not", w |-> 16, dst |-> f], 0)
          IN /\ DOMAIN r.writes = {a, (a + 1) % MB}
             /\ r.writes[a] = 255 - Bg(7, a) /\ r.writes[(a + 1) % MB] = 255 - Bg(7, (a + 1) % MB)
       \* LEA: offset only; used as [bx] with the same segment it addresses the same byte
       /\ LET r == Exec(st, [cls |-> "lea", dst |-> R16("bx"), src |-> f], 0)
          IN /\ r.writes = NoWrites /\ r.flags = 2 /\ r.regs = [regs EXCEPT !["bx"] = off]
             /\ Addr(r.regs, Mem(sgn, "bx", "", 0)) = a

\* byte registers alias exactly their half of the 16-bit register
C04ByteRegs ==
  (mode = "c04" /\ aux.form = << >>) =>
  \A r8 \in Reg8Names : \A v \in {0, 1, 127, 128, 255, 90} : \A old \in L6 \cup {4660, 43981} :
    LET regs == [Regs0 EXCEPT ![Parent(r8)] = old]
        r2 == Set8(regs, r8, v)
    IN /\ Get8(r2, r8) = v
       /\ \A n \in RegNames \ {Parent(r8)} : r2[n] = regs[n]
       /\ (IF IsHigh(r8) THEN Lo(r2[Parent(r8)]) = Lo(old) /\ Hi(r2[Parent(r8)]) = v
                         ELSE Hi(r2[Parent(r8)]) = Hi(old) /\ Lo(r2[Parent(r8)]) = v)
       /\ \A o8 \in Reg8Names \ {r8} : Get8(r2, o8) = Get8(regs, o8)

(***************************************************************************)
(* C05: histories of stack operations against a reference stack            *)
(***************************************************************************)
\* memory operands live in the CS segment (fixed at 2000h), away from every stack of the model
StackOps ==
  {[cls |-> "push", src |-> o] : o \in {R16("ax"), R16("bx"), SR("cs"), SR("es"), Mem("cs", "", "", 16)}}
  \cup {[cls |-> "pop", dst |-> o] : o \in {R16("ax"), R16("bx"), SR("es"), SR("ds"), Mem("cs", "", "", 16)}}
  \cup {[cls |-> "flagsx", op |-> o] : o \in {"pushf", "popf"}}
  \cup {[cls |-> "xchg", w |-> 16, a |-> R16("ax"), b |-> R16("bx")]}

SPs == {0, 1, 2, 3, 65534, 65535, 32768}
SSs == {0, 4096, 65535, 61440}

InitC05 ==
  /\ mode = "c05" /\ hist = << >>
  /\ \E sp \in SPs, ss \in SSs :
       /\ s = MkState([Regs0 EXCEPT !["sp"] = sp, !["ss"] = ss, !["cs"] = 8192, !["ds"] = 8192,
                                    !["es"] = 12345, !["ax"] = 4660, !["bx"] = 43981], 2 + 1 + 128 + 1024, 5)
       /\ aux = [ref |-> << >>, sp0 |-> sp, ok |-> TRUE, n |-> 0, pushes |-> 0, pops |-> 0]

\* the value an operation pushes / what a pop must deliver
NextC05 ==
  /\ mode = "c05" /\ aux.n < MaxDepth
  /\ \E i \in StackOps :
       LET r == Exec(s, i, 0)
           st2 == Apply(s, r)
           isPush == i.cls = "push" \/ (i.cls = "flagsx" /\ i.op = "pushf")
           isPop == i.cls = "pop" \/ (i.cls = "flagsx" /\ i.op = "popf")
           pushed == IF i.cls = "push" THEN Val(s, i.src, 16) ELSE s.flags
           popped == IF i.cls = "pop" THEN Val(st2, i.dst, 16) ELSE st2.flags
           top == IF aux.ref = << >> THEN -1 ELSE aux.ref[Len(aux.ref)]
           ref2 == IF isPush THEN Append(aux.ref, pushed)
                   ELSE IF isPop /\ aux.ref # << >> THEN SubSeq(aux.ref, 1, Len(aux.ref) - 1)
                   ELSE aux.ref
           \* the reference stack's verdict on this step
           ok2 == /\ (isPush => /\ st2.regs["sp"] = (s.regs["sp"] - 2) % 65536
                                 /\ Rd16(st2, Phys(st2.regs["ss"], st2.regs["sp"])) = pushed)
                  /\ (isPop => /\ st2.regs["sp"] = (s.regs["sp"] + 2) % 65536
                                /\ (top >= 0 => popped = top))
                  /\ (i.cls # "flagsx" => st2.flags = s.flags)
                  /\ (i.cls = "flagsx" /\ i.op = "pushf" => st2.flags = s.flags)
       IN /\ s' = st2
          /\ aux' = [aux EXCEPT !.ref = ref2, !.ok = ok2, !.n = @ + 1,
                              !.pushes = IF isPush THEN @ + 1 ELSE @, !.pops = IF isPop THEN @ + 1 ELSE @]
          /\ hist' = IF Gen THEN Append(hist, i) ELSE hist
          /\ UNCHANGED mode

C05Lifo == mode = "c05" => aux.ok
\* SP accounting: after k pushes and m pops SP = SP0 - 2k + 2m (mod 2^16)
C05Balance ==
  mode = "c05" =>
    /\ s.regs["sp"] \in Word
    /\ s.regs["sp"] = (aux.sp0 - 2 * aux.pushes + 2 * aux.pops) % 65536
    /\ s.regs["ss"] \in SSs
\* all live reference entries are still in memory, in order, below-to-top
C05Live ==
  mode = "c05" =>
    \A k \in 1 .. Len(aux.ref) :
      Rd16(s, Phys(s.regs["ss"], (s.regs["sp"] + 2 * (Len(aux.ref) - k)) % 65536)) = aux.ref[k]

\* single-instruction laws of the data-transfer group (root state of the c05x mode)
XferVals == {0, 1, 255, 256, 32767, 32768, 65535, 4660}
C05Laws ==
  mode = "c05x" =>
  \A v \in XferVals : \A u \in XferVals :
    LET regs == [Regs0 EXCEPT !["ax"] = v, !["bx"] = u, !["ds"] = 16, !["ss"] = 4096, !["sp"] = 0, !["es"] = 7]
        st == MkState(regs, u, 3)
        m == Mem("", "bx", "", 0)
    IN \* MOV copies, changes no flag
       /\ LET r == Exec(st, [cls |-> "mov", w |-> 16, dst |-> R16("cx"), src |-> R16("ax")], 0)
          IN r.regs = [regs EXCEPT !["cx"] = v] /\ r.flags = u /\ r.writes = NoWrites
       /\ LET r == Exec(st, [cls |-> "mov", w |-> 16, dst |-> SR("es"), src |-> R16("ax")], 0)
          IN r.regs = [regs EXCEPT !["es"] = v] /\ r.flags = u
       /\ LET r == Exec(st, [cls |-> "mov", w |-> 8, dst |-> R8("ch"), src |-> Imm(v)], 0)
          IN r.regs = [regs EXCEPT !["cx"] = (v % 256) * 256] /\ r.flags = u
       \* XCHG swaps completely and is an involution
       /\ LET x == [cls |-> "xchg", w |-> 16, a |-> R16("ax"), b |-> m]
              r1 == Exec(st, x, 0)
              s1 == Apply(st, r1)
              r2 == Exec(s1, x, 0)
              s2 == Apply(s1, r2)
          IN /\ r1.regs["ax"] = Val(st, m, 16) /\ Val(s1, m, 16) = v /\ r1.flags = u
             /\ s2.regs = st.regs /\ Val(s2, m, 16) = Val(st, m, 16)
       /\ LET x == [cls |-> "xchg", w |-> 8, a |-> R8("al"), b |-> R8("ah")]
              r1 == Exec(st, x, 0)
          IN r1.regs["ax"] = Lo(v) * 256 + Hi(v) /\ r1.flags = u
       \* PUSH x ; POP y  leaves y = x and SP restored (SP = 0 wraps to FFFEh)
       /\ LET r1 == Exec(st, [cls |-> "push", src |-> R16("ax")], 0)
              s1 == Apply(st, r1)
              r2 == Exec(s1, [cls |-> "pop", dst |-> R16("dx")], 0)
          IN /\ r1.regs["sp"] = 65534 /\ DOMAIN r1.writes = {Phys(4096, 65534), Phys(4096, 65535)}
             /\ r2.regs["dx"] = v /\ r2.regs["sp"] = 0 /\ r2.flags = u /\ r2.writes = NoWrites
       \* PUSHF ; POPF and LAHF ; SAHF are identities on the flag word / low byte
       /\ LET r1 == Exec(st, [cls |-> "flagsx", op |-> "pushf"], 0)
              s1 == Apply(st, r1)
              s1b == [s1 EXCEPT !.flags = 0]
              r2 == Exec(s1b, [cls |-> "flagsx", op |-> "popf"], 0)
          IN r2.flags = u /\ r2.regs["sp"] = 0
       /\ LET r1 == Exec(st, [cls |-> "flagsx", op |-> "lahf"], 0)
              s1 == Apply(st, r1)
              s1b == [s1 EXCEPT !.flags = (65535 - u)]
              r2 == Exec(s1b, [cls |-> "flagsx", op |-> "sahf"], 0)
          IN /\ Hi(r1.regs["ax"]) = Lo(u) /\ Lo(r1.regs["ax"]) = Lo(v) /\ r1.flags = u
             /\ Lo(r2.flags) = Lo(u) /\ Hi(r2.flags) = Hi(65535 - u)
       \* XLAT: AL := DS:[BX + AL] with a 16-bit offset
       /\ LET r == Exec(st, [cls |-> "xlat"], 0)
          IN /\ Lo(r.regs["ax"]) = Bg(3, Phys(16, (u + Lo(v)) % 65536)) /\ Hi(r.regs["ax"]) = Hi(v)
             /\ r.flags = u /\ r.writes = NoWrites

\* generator: one line per complete history
C05Emit ==
  (Gen /\ mode = "c05" /\ aux.n = MaxDepth) =>
    PrintT(<<"REPLAY", ToJson([sp |-> aux.sp0, ss |-> s.regs["ss"], ops |-> hist])>>)

(***************************************************************************)
(* C07: string instructions driven through the REPEAT protocol             *)
(***************************************************************************)
StrCombos ==
  {<<o, "">> : o \in {"movs", "lods", "stos", "cmps", "scas"}}
  \cup {<<o, "rep">> : o \in {"movs", "lods", "stos"}}
  \cup {<<o, p>> : o \in {"cmps", "scas"}, p \in {"repz", "repnz"}}

\* three layouts: far apart, overlapping forward, SI/DI crossing FFFFh with DS # ES
Layouts ==
  { [ds |-> 256, es |-> 512, si |-> 16, di |-> 32],
    [ds |-> 256, es |-> 256, si |-> 16, di |-> 18],
    [ds |-> 4096, es |-> 65535, si |-> 65530, di |-> 65533] }

\* memory content: runs of equal bytes so that REPE/REPNE stop at interesting places
Pattern(a) == IF (a \div 5) % 3 = 0 THEN 170 ELSE (a * 7) % 256

InitC07 ==
  /\ mode = "c07" /\ hist = << >>
  /\ \E c \in StrCombos, w \in {8, 16}, df \in {0, 1}, lay \in Layouts, cx \in 0 .. MaxCX, pat \in {0, 1} :
       LET regs == [Regs0 EXCEPT !["ds"] = lay.ds, !["es"] = lay.es, !["si"] = lay.si, !["di"] = lay.di,
                                 !["cx"] = cx, !["ax"] = 170 * 257]
       IN /\ s = MkState(regs, 2 + df * DF, IF pat = 0 THEN 9 ELSE -1)
          /\ aux = [ins |-> [cls |-> "string", op |-> c[1], w |-> w, rep |-> c[2]],
                    cx0 |-> cx, bodies |-> 0, done |-> FALSE, s0 |-> regs, f0 |-> 2 + df * DF,
                    invocations |-> 0, zfstop |-> FALSE]

NextC07 ==
  /\ mode = "c07" /\ ~aux.done
  /\ LET r == Exec(s, aux.ins, 0)
         st2 == Apply(s, r)
         \* an invocation executed a body iff it is not the CX = 0 case of a REP line
         body == aux.ins.rep = "" \/ s.regs["cx"] # 0
         \* the driver's choice when both answers are allowed: take REPEAT (worst case)
         again == <<"REPEAT", 0>> \in r.outs
     IN /\ s' = st2
        /\ aux' = [aux EXCEPT !.bodies = IF body THEN @ + 1 ELSE @, !.done = ~again,
                              !.invocations = @ + 1,
                              !.zfstop = body /\ aux.ins.rep # "" /\ ZfStops(aux.ins.rep, st2.flags)]
        /\ UNCHANGED <<mode, hist>>

ElemBytes == aux.ins.w \div 8
Disp(n) == IF FlagSet(aux.f0, DF) THEN (0 - n * ElemBytes) % 65536 ELSE (n * ElemBytes) % 65536
UsesSI == aux.ins.op \in {"movs", "lods", "cmps"}
UsesDI == aux.ins.op \in {"movs", "stos", "cmps", "scas"}

C07Progress ==
  mode = "c07" =>
    /\ aux.bodies <= (IF aux.ins.rep = "" THEN 1 ELSE aux.cx0)
    /\ aux.invocations <= aux.cx0 + 2
    /\ (aux.ins.rep # "" => s.regs["cx"] = aux.cx0 - aux.bodies)
    /\ s.regs["si"] = (IF UsesSI THEN (aux.s0["si"] + Disp(aux.bodies)) % 65536 ELSE aux.s0["si"])
    /\ s.regs["di"] = (IF UsesDI THEN (aux.s0["di"] + Disp(aux.bodies)) % 65536 ELSE aux.s0["di"])
    /\ \A n \in RegNames \ {"cx", "si", "di", "ax"} : s.regs[n] = aux.s0[n]
    /\ (aux.ins.op # "lods" => s.regs["ax"] = aux.s0["ax"])
    /\ (aux.ins.rep = "" => s.regs["cx"] = aux.cx0)

C07Done ==
  (mode = "c07" /\ aux.done) =>
    /\ (aux.ins.rep = "" => aux.bodies = 1)
    /\ (aux.ins.rep = "rep" => aux.bodies = aux.cx0 /\ s.regs["cx"] = 0)
    /\ (aux.ins.rep \in {"repz", "repnz"} =>
          \/ (aux.bodies = aux.cx0 /\ s.regs["cx"] = 0)
          \/ (aux.bodies >= 1 /\ aux.bodies < aux.cx0 + 1 /\ aux.zfstop /\ ZfStops(aux.ins.rep, s.flags)))
    /\ (aux.cx0 = 0 /\ aux.ins.rep # "" => s.mem = << >> /\ s.flags = aux.f0 /\ s.regs = aux.s0)
    /\ (aux.ins.op \in {"lods", "cmps", "scas"} => s.mem = << >>)
    /\ (aux.ins.op \in {"movs", "lods", "stos"} => s.flags = aux.f0)

\* big-step meaning of a completed REP MOVS / STOS without overlap, and of REPE/REPNE CMPS / SCAS
\* byte b of the element j steps away from the start offset: the element's offset wraps at 16
\* bits, its bytes are consecutive physical addresses (DESIGN 7.5)
ElemAt(st, sg, off, j, b) ==
  LET eo == IF FlagSet(aux.f0, DF) THEN (off - j * ElemBytes) % 65536 ELSE (off + j * ElemBytes) % 65536
  IN Rd(st, (Phys(sg, eo) + b) % MB)
Start0 == MkState(aux.s0, aux.f0, s.bg)
C07Meaning ==
  (mode = "c07" /\ aux.done /\ aux.s0["ds"] # aux.s0["es"]) =>
    LET E == ElemBytes IN
    /\ (aux.ins.op = "movs" =>
          \A j \in 0 .. aux.bodies - 1 : \A b \in 0 .. E - 1 :
             ElemAt(s, aux.s0["es"], aux.s0["di"], j, b) = ElemAt(Start0, aux.s0["ds"], aux.s0["si"], j, b))
    /\ (aux.ins.op = "stos" =>
          \A j \in 0 .. aux.bodies - 1 : \A b \in 0 .. E - 1 :
             ElemAt(s, aux.s0["es"], aux.s0["di"], j, b) = (IF b = 0 THEN Lo(aux.s0["ax"]) ELSE Hi(aux.s0["ax"])))
    /\ (aux.ins.op \in {"movs", "stos"} => Cardinality(DOMAIN s.mem) <= aux.bodies * E)
    \* REPE CMPS: every compared element before the last one was equal (REPNE: different)
    /\ (aux.ins.op = "cmps" /\ aux.ins.rep \in {"repz", "repnz"} =>
          \A j \in 0 .. aux.bodies - 2 :
             LET eq == \A b \in 0 .. E - 1 :
                          ElemAt(Start0, aux.s0["ds"], aux.s0["si"], j, b) = ElemAt(Start0, aux.s0["es"], aux.s0["di"], j, b)
             IN eq = (aux.ins.rep = "repz"))
    /\ (aux.ins.op = "scas" /\ aux.ins.rep \in {"repz", "repnz"} =>
          \A j \in 0 .. aux.bodies - 2 :
             LET eq == \A b \in 0 .. E - 1 :
                          ElemAt(Start0, aux.s0["es"], aux.s0["di"], j, b) = (IF b = 0 THEN Lo(aux.s0["ax"]) ELSE Hi(aux.s0["ax"]))
             IN eq = (aux.ins.rep = "repz"))

C07Terminates == (mode = "c07") ~> (mode = "c07" /\ aux.done)

(***************************************************************************)
(* C09: totality and range of every instruction form                       *)
(***************************************************************************)
AnyMem == {Mem("", "", "", 65535), Mem("es", "bx", "si", 65535), Mem("", "bp", "di", -1),
           Mem("ss", "", "si", 1), Mem("cs", "bx", "", 32767), Lbl(65535)}
Dst8 == {R8("al"), R8("ch")} \cup AnyMem
Dst16 == {R16("ax"), R16("sp"), R16("bp")} \cup AnyMem
Src8(d) == IF IsMem(d) THEN {R8("bl"), Imm(255)} ELSE {R8("ah"), Imm(128)} \cup AnyMem
Src16(d) == IF IsMem(d) THEN {R16("sp"), Imm(65535)} ELSE {R16("si"), Imm(32768)} \cup AnyMem

Instrs ==
     {[cls |-> "binarith", op |-> o, w |-> 8, dst |-> d, src |-> x] : o \in {"add", "adc", "sub", "sbb", "cmp"}, d \in Dst8, x \in UNION {Src8(dd) : dd \in Dst8}}
  \cup {[cls |-> "binarith", op |-> o, w |-> 16, dst |-> d, src |-> x] : o \in {"add", "sbb", "cmp"}, d \in Dst16, x \in UNION {Src16(dd) : dd \in Dst16}}
  \cup {[cls |-> "logic", op |-> o, w |-> 16, dst |-> d, src |-> x] : o \in {"and", "or", "xor", "test"}, d \in Dst16, x \in {R16("dx"), Imm(255)}}
  \cup {[cls |-> "not", w |-> ww, dst |-> d] : ww \in {16}, d \in Dst16}
  \cup {[cls |-> "unarith", op |-> o, w |-> 8, dst |-> d] : o \in {"inc", "dec", "neg", "mul", "imul", "div", "idiv"}, d \in Dst8}
  \cup {[cls |-> "unarith", op |-> o, w |-> 16, dst |-> d] : o \in {"inc", "dec", "neg", "mul", "imul", "div", "idiv"}, d \in Dst16}
  \cup {[cls |-> "shift", op |-> o, w |-> ww, dst |-> d, cnt |-> c] :
          o \in {"sal", "shr", "sar", "rol", "ror", "rcl", "rcr"}, ww \in {8}, d \in {R8("al"), Mem("", "bx", "", 0)},
          c \in {[k |-> "cl"], [k |-> "imm", v |-> 0], [k |-> "imm", v |-> 1], [k |-> "imm", v |-> 9], [k |-> "imm", v |-> 255]}}
  \cup {[cls |-> "shift", op |-> o, w |-> 16, dst |-> Lbl(65535), cnt |-> [k |-> "imm", v |-> 17]] : o \in {"sal", "shr", "sar", "rol", "ror", "rcl", "rcr"}}
  \cup {[cls |-> "adjust", op |-> o] : o \in {"aaa", "aas", "daa", "das", "aam", "aad", "cbw", "cwd"}}
  \cup {[cls |-> "mov", w |-> 16, dst |-> d, src |-> x] : d \in Dst16 \cup {SR("es"), SR("ss")}, x \in {R16("ax"), Imm(65535), SR("cs")} \cup AnyMem}
  \cup {[cls |-> "xchg", w |-> 16, a |-> d, b |-> R16("sp")] : d \in Dst16}
  \cup {[cls |-> "xchg", w |-> 8, a |-> R8("dh"), b |-> d] : d \in Dst8}
  \cup {[cls |-> "push", src |-> x] : x \in Dst16 \cup {SR("cs"), SR("ss")}}
  \cup {[cls |-> "pop", dst |-> x] : x \in Dst16 \cup {SR("ds"), SR("ss")}}
  \cup {[cls |-> "flagsx", op |-> o] : o \in {"lahf", "sahf", "pushf", "popf"}}
  \cup {[cls |-> "xlat"]}
  \cup {[cls |-> "lea", dst |-> R16("di"), src |-> m] : m \in AnyMem}
  \cup {[cls |-> "ctl", op |-> o] : o \in {"stc", "clc", "cmc", "std", "cld", "sti", "cli", "nop", "hlt"}}
  \cup {[cls |-> "jcc", mn |-> m, target |-> 3] : m \in CondMnemonics \cup {"jmp", "jcxz", "loop", "loope", "loopne", "jnbe", "loopz"}}
  \cup {[cls |-> "call", target |-> 2], [cls |-> "ret"], [cls |-> "print"]}
  \cup {[cls |-> "int", n |-> n] : n \in {0, 3, 16, 33}}
  \cup {[cls |-> "string", op |-> c[1], w |-> ww, rep |-> c[2]] : c \in StrCombos, ww \in {8, 16}}

\* adversarial states: every register from L6 (uniform and one-hot), segments straddling 2^20
AdvStates ==
  LET uni == {[n \in RegNames |-> v] : v \in L6}
      hot == {[[n \in RegNames |-> v] EXCEPT ![m] = u] : v \in {0, 65535}, u \in L6, m \in {"sp", "bx", "bp", "si", "cx", "ax", "dx", "ss", "ds", "es"}}
  IN {MkState(rg, f, 11) : rg \in uni \cup hot, f \in {0, 65535}}

InitC09 == mode = "c09" /\ s = << >> /\ aux = [ins |-> << >>] /\ hist = << >>
NextC09 == mode = "c09" /\ aux.ins = << >> /\ \E i \in Instrs : aux' = [ins |-> i] /\ UNCHANGED <<mode, s, hist>>

C09Total ==
  (mode = "c09" /\ aux.ins # << >>) =>
  \A st \in AdvStates :
    \A stk \in {<< >>, <<5>>} :
      LET r == Exec([st EXCEPT !.stack = stk], aux.ins, 7) IN
      /\ ResultOK(r)
      /\ r.freemem \subseteq 0 .. MB - 1
      /\ \A o \in r.outs : o[1] = "JMP" => o[2] \in Nat
      /\ Len(r.stack) <= Len(stk) + 1

(***************************************************************************)
(* C19: two machines, one interleaved schedule; non-interference           *)
(***************************************************************************)
Streams ==
  { << [cls |-> "unarith", op |-> "inc", w |-> 16, dst |-> R16("ax")], [cls |-> "push", src |-> R16("ax")],
       [cls |-> "mov", w |-> 8, dst |-> Mem("", "", "", 16), src |-> R8("al")] >>,
    << [cls |-> "unarith", op |-> "dec", w |-> 16, dst |-> R16("ax")], [cls |-> "pop", dst |-> R16("bx")],
       [cls |-> "not", w |-> 16, dst |-> Mem("", "", "", 16)] >>,
    << [cls |-> "ctl", op |-> "stc"], [cls |-> "binarith", op |-> "adc", w |-> 16, dst |-> R16("ax"), src |-> R16("ax")],
       [cls |-> "flagsx", op |-> "pushf"] >>,
    << [cls |-> "mov", w |-> 16, dst |-> SR("ds"), src |-> R16("ax")], [cls |-> "mov", w |-> 16, dst |-> Mem("", "bx", "", 2), src |-> R16("sp")],
       [cls |-> "xchg", w |-> 16, a |-> R16("ax"), b |-> Mem("", "", "", 16)] >>,
    << [cls |-> "invalid"], [cls |-> "unarith", op |-> "neg", w |-> 8, dst |-> R8("ah")], [cls |-> "invalid"] >>,
    << [cls |-> "string", op |-> "stos", w |-> 16, rep |-> ""], [cls |-> "unarith", op |-> "mul", w |-> 8, dst |-> R8("bl")],
       [cls |-> "ctl", op |-> "std"] >> }

StartA == MkState([Regs0 EXCEPT !["ax"] = 4660, !["bx"] = 7, !["sp"] = 256, !["ss"] = 16, !["es"] = 32, !["di"] = 8], 2, 5)
StartB == MkState([Regs0 EXCEPT !["ax"] = 65535, !["bx"] = 65534, !["sp"] = 0, !["ss"] = 4096, !["es"] = 65535, !["di"] = 65535], 65535, 9)

RECURSIVE Solo(_, _, _)
Solo(st, stream, n) == IF n = 0 THEN st ELSE LET p == Solo(st, stream, n - 1) IN Apply(p, Exec(p, stream[n], n - 1))

InitC19 ==
  /\ mode = "c19" /\ hist = << >>
  /\ \E sa \in Streams, sb \in Streams :
       /\ s = [a |-> StartA, b |-> StartB]
       /\ aux = [sa |-> sa, sb |-> sb, ia |-> 0, ib |-> 0]
NextC19 ==
  /\ mode = "c19"
  /\ \/ /\ aux.ia < Len(aux.sa)
        /\ s' = [s EXCEPT !.a = Apply(s.a, Exec(s.a, aux.sa[aux.ia + 1], aux.ia))]
        /\ aux' = [aux EXCEPT !.ia = @ + 1]
        /\ hist' = IF Gen THEN Append(hist, 0) ELSE hist
     \/ /\ aux.ib < Len(aux.sb)
        /\ s' = [s EXCEPT !.b = Apply(s.b, Exec(s.b, aux.sb[aux.ib + 1], aux.ib))]
        /\ aux' = [aux EXCEPT !.ib = @ + 1]
        /\ hist' = IF Gen THEN Append(hist, 1) ELSE hist
  /\ UNCHANGED mode
\* whatever the schedule, each machine is where its own stream alone would have brought it
C19NonInterference ==
  mode = "c19" => s.a = Solo(StartA, aux.sa, aux.ia) /\ s.b = Solo(StartB, aux.sb, aux.ib)
C19Emit ==
  (Gen /\ mode = "c19" /\ aux.ia = Len(aux.sa) /\ aux.ib = Len(aux.sb)) =>
     PrintT(<<"REPLAY", ToJson([sa |-> aux.sa, sb |-> aux.sb, schedule |-> hist])>>)
SpecC19 == InitC19 /\ [][NextC19]_vars

(***************************************************************************)
Init == InitC04 \/ InitC05 \/ InitC07 \/ InitC09 \/ (mode = "c05x" /\ s = << >> /\ aux = << >> /\ hist = << >>)
Next == NextC04 \/ NextC05 \/ NextC07 \/ NextC09
Spec == Init /\ [][Next]_vars
FairSpec == Spec /\ WF_vars(NextC07)

SpecC04 == InitC04 /\ [][NextC04]_vars
SpecC05 == (InitC05 \/ (mode = "c05x" /\ s = << >> /\ aux = << >> /\ hist = << >>)) /\ [][NextC05]_vars
SpecC07 == InitC07 /\ [][NextC07]_vars /\ WF_vars(NextC07)
SpecC09 == InitC09 /\ [][NextC09]_vars

View == <<mode, s, aux>>
=============================================================================
