SPECIFICATION SpecC05
CONSTANT MaxDepth = 3
CONSTANT MaxCX = 0
CONSTANT Gen = TRUE
INVARIANT C05Emit
CHECK_DEADLOCK FALSE
