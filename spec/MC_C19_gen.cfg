SPECIFICATION SpecC19
CONSTANT MaxDepth = 0
CONSTANT MaxCX = 0
CONSTANT Gen = TRUE
INVARIANT C19Emit
CHECK_DEADLOCK FALSE
