------------------------------- MODULE Bits -------------------------------
(***************************************************************************)
(* Bit-level helpers for the 8086 specification.  TLC integers are 32-bit  *)
(* signed, so every intermediate value is kept below 2^31; 32-bit          *)
(* quantities (word MUL/DIV) are pairs of 16-bit halves <<hi, lo>>.        *)
(***************************************************************************)
EXTENDS Integers, Sequences

Pow2(n) ==
  CASE n = 0 -> 1 [] n = 1 -> 2 [] n = 2 -> 4 [] n = 3 -> 8 [] n = 4 -> 16
    [] n = 5 -> 32 [] n = 6 -> 64 [] n = 7 -> 128 [] n = 8 -> 256
    [] n = 9 -> 512 [] n = 10 -> 1024 [] n = 11 -> 2048 [] n = 12 -> 4096
    [] n = 13 -> 8192 [] n = 14 -> 16384 [] n = 15 -> 32768 [] n = 16 -> 65536
    [] n = 17 -> 131072 [] n = 18 -> 262144 [] n = 19 -> 524288
    [] n = 20 -> 1048576 [] n = 24 -> 16777216

Byte == 0 .. 255
Word == 0 .. 65535
MB   == 1048576

Bit(x, k) == (x \div Pow2(k)) % 2
Lo(x) == x % 256
Hi(x) == (x \div 256) % 256
Msb(w, x) == Bit(x, w - 1)

\* signed value of the w-bit pattern x, and back
Sx(w, x) == IF x >= Pow2(w - 1) THEN x - Pow2(w) ELSE x
Ux(w, v) == v % Pow2(w)

\* PF is set when the low byte has an even number of one bits
Ones8(x) == Bit(x,0) + Bit(x,1) + Bit(x,2) + Bit(x,3) + Bit(x,4) + Bit(x,5) + Bit(x,6) + Bit(x,7)
Parity8(x) == Ones8(x) % 2 = 0

B(c, m) == IF c THEN m ELSE 0

(***************************************************************************)
(* 32-bit arithmetic on pairs <<hi, lo>> of 16-bit halves.                 *)
(***************************************************************************)
\* unsigned 16 x 16 -> 32
Mul16(a, b) ==
  LET p1  == Lo(a) * b                    \* < 2^24
      p2  == Hi(a) * b                    \* < 2^24, weight 256
      low == p1 + (p2 % 256) * 256        \* < 2^24 + 2^16
  IN  << (p2 \div 256) + (low \div 65536), low % 65536 >>

\* two's complement negation of a 32-bit pair
Neg32(p) ==
  IF p[2] = 0 THEN << (65536 - p[1]) % 65536, 0 >>
              ELSE << 65535 - p[1], 65536 - p[2] >>

\* signed 16 x 16 -> 32 (as a bit pattern pair)
IMul16(a, b) ==
  LET sa == Sx(16, a)  sb == Sx(16, b)
      ma == IF sa < 0 THEN -sa ELSE sa
      mb == IF sb < 0 THEN -sb ELSE sb
      m  == Mul16(ma, mb)
  IN IF (sa < 0) # (sb < 0) THEN Neg32(m) ELSE m

\* unsigned 32 / 16: requires p[1] < d (else the quotient does not fit)
\* long division in base 256; every intermediate < 2^24
DivMod32(p, d) ==
  LET c1 == p[1] * 256 + Hi(p[2])
      q1 == c1 \div d
      r1 == c1 % d
      c0 == r1 * 256 + Lo(p[2])
      q0 == c0 \div d
      r0 == c0 % d
  IN [q |-> q1 * 256 + q0, r |-> r0]

=============================================================================
