SPECIFICATION SpecC03
CONSTANT MaxCount = 255
CONSTANT AxVals <- AxQuick
INVARIANT ByteMulDivLaws
INVARIANT WordMulDivLaws
INVARIANT AdjustLaws
INVARIANT BcdLaws
CHECK_DEADLOCK FALSE
