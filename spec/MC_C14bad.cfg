SPECIFICATION SpecBad
CONSTANT Gen = FALSE
INVARIANT C14Refused
INVARIANT BadCounts
CHECK_DEADLOCK FALSE
