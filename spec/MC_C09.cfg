SPECIFICATION SpecC09
CONSTANT MaxDepth = 0
CONSTANT MaxCX = 0
CONSTANT Gen = FALSE
INVARIANT C09Total
CHECK_DEADLOCK FALSE
