---------------------------- MODULE ExportTables ----------------------------
(***************************************************************************)
(* Writes the byte-level truth tables of AddW / SubW (Alu.tla) as ndjson:  *)
(* one record per (op, carry) with the 65536 entries res + 256 * flags in  *)
(* row-major order (a * 256 + b).  The C01 thorough tier composes word     *)
(* results from them with the ripple lemma that MC_Alu model-checks, and   *)
(* compares all 2^32 word pairs x carry of the real word_add/adc/sub/sbb/  *)
(* cmp against the composition.                                            *)
(***************************************************************************)
EXTENDS Alu, Json, IOUtils, TLC

Row(op, c) == [k \in 1 .. 65536 |->
                 LET a == (k - 1) \div 256  b == (k - 1) % 256
                     r == IF op = "add" THEN AddW(8, a, b, c) ELSE SubW(8, a, b, c)
                 IN r.res + 256 * r.fl]

ASSUME ndJsonSerialize(IOEnv.OUT, << [op |-> "add", c |-> 0, t |-> Row("add", 0)], [op |-> "add", c |-> 1, t |-> Row("add", 1)],
                                     [op |-> "sub", c |-> 0, t |-> Row("sub", 0)], [op |-> "sub", c |-> 1, t |-> Row("sub", 1)] >>)
=============================================================================
