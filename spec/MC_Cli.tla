-------------------------------- MODULE MC_Cli --------------------------------
(***************************************************************************)
(* Model of Cli.tla: the C20 small programs x {no input, 3 x next, 40 x    *)
(* next} x {-i, plain}, every block program of <= 2 blocks with and        *)
(* without `start`, a data section beyond 64 KiB, an out-of-range constant.*)
(***************************************************************************)
EXTENDS Programs

CONSTANT MaxRunSteps
VARIABLES phase, argv, P, d, executed

BlockNamesC == DOMAIN Blocks
CliPrograms ==
  {MkProgram(items, interp, s) : items \in SmallPrograms, interp \in BOOLEAN, s \in {<< >>, AllNext(3), AllNext(40)}}
  \cup {MkProgram(ItemsOf(bs, s), FALSE, << >>) : bs \in UNION {[1 .. n -> BlockNamesC] : n \in 0 .. 2}, s \in 0 .. 3}
  \cup {[data |-> <<[k |-> "def", label |-> "big", dir |-> "db", form |-> "zero", n |-> 65535],
                    [k |-> "def", label |-> "more", dir |-> "dw", form |-> "num", v |-> 7, raw |-> 7]>>,
         items |-> <<Lab("start"), I(IncR("ax"), 0)>>, interp |-> FALSE, stdin |-> << >>],
        [data |-> << >>, items |-> <<Lab("start"), I([cls |-> "mov", w |-> 8, dst |-> [k |-> "reg8", r |-> "al"], src |-> [k |-> "imm", v |-> 44, raw |-> 300]], 0)>>,
         interp |-> TRUE, stdin |-> AllNext(3)]}

Fl(n) == [k |-> "flag", name |-> n]
File(st) == [k |-> "file", state |-> st]
CliArgvs ==
  {<<File("text")>>, <<Fl("-i"), File("text")>>, <<File("text"), Fl("-i")>>, <<Fl("--interpreted"), File("text")>>,
   << >>, <<Fl("-i")>>, <<File("missing")>>, <<Fl("-i"), File("dir")>>, <<File("binary")>>,
   <<Fl("-x"), File("text")>>, <<File("text"), File("text")>>, <<Fl("-i"), Fl("--interpreted"), File("text")>>,
   <<Fl("-h")>>, <<Fl("--version"), File("text")>>, <<File("text"), Fl("-h")>>}

INSTANCE Cli WITH Programs <- CliPrograms, Argvs <- CliArgvs
=============================================================================
