SPECIFICATION SpecC08
CONSTANT MaxBlocks = 3
CONSTANT MaxScript = 0
CONSTANT MaxSteps = 40
CONSTANT Gen = TRUE
INVARIANT C08Emit
CHECK_DEADLOCK FALSE
