SPECIFICATION SpecC06
CONSTANT MaxCount = 255
CONSTANT AxVals = {0}
INVARIANT Complementary
INVARIANT CompareMeaning
INVARIANT LoopMeaning
CHECK_DEADLOCK FALSE
