------------------------------- MODULE MC_Alu -------------------------------
(***************************************************************************)
(* Bounded models that check the ALU part of the specification against     *)
(* independent characterisations (C01): every flag formula of Alu.tla is    *)
(* stated a second time -- arithmetically on signed/unsigned values and     *)
(* bit-serially -- and TLC compares the two on all byte operands and on a   *)
(* boundary lattice of word operands.                                       *)
(***************************************************************************)
EXTENDS Deviations, TLC

VARIABLES op, w, a, c
vars == <<op, w, a, c>>

Lattice16 ==
  {0, 1, 2, 3, 9, 10, 15, 16, 17, 127, 128, 129, 254, 255, 256, 257, 4095, 4096, 4097,
   32766, 32767, 32768, 32769, 65534, 65535, 61440, 65280, 240, 65520, 21845, 43690}
  \cup UNION {{Pow2(k) - 1, Pow2(k), Pow2(k) + 1, 65536 - Pow2(k), 65535 - Pow2(k), 65537 - Pow2(k)} : k \in 2 .. 15}

Vals(ww) == IF ww = 8 THEN Byte ELSE Lattice16 \cap Word
AxQuick == Lattice16 \cap Word
AxAll == Word

BinOps == {"add", "adc", "sub", "sbb", "cmp"}

\* a = -1 is a root state; its successors (explored by all TLC workers) carry the operand
Init == op \in BinOps /\ w \in {8, 16} /\ a = -1 /\ c \in {0, 1}
Next == a = -1 /\ a' \in Vals(w) /\ UNCHANGED <<op, w, c>>
Spec == Init /\ [][Next]_vars

InRange(ww, v) == v >= -Pow2(ww - 1) /\ v <= Pow2(ww - 1) - 1
Fl(r, m) == FlagSet(r.fl, m)

\* the carry actually consumed by the operation
Cin == IF op \in {"adc", "sbb"} THEN c ELSE 0
IsAdd == op \in {"add", "adc"}

\* arithmetic characterisation of result and the six flags
ArithChar ==
  a >= 0 =>
  \A b \in Vals(w) :
    LET r == BinArith(op, w, a, b, c)
        u == IF IsAdd THEN a + b + Cin ELSE a - b - Cin
        s == IF IsAdd THEN Sx(w, a) + Sx(w, b) + Cin ELSE Sx(w, a) - Sx(w, b) - Cin
        v == u % Pow2(w)
    IN /\ (IF op = "cmp" THEN r.res = a ELSE r.res = v)
       /\ Fl(r, CF) = (u < 0 \/ u >= Pow2(w))
       /\ Fl(r, OF) = ~InRange(w, s)
       /\ Fl(r, ZF) = (v = 0)
       /\ Fl(r, SF) = (Sx(w, v) < 0)
       /\ Fl(r, PF) = Parity8(v % 256)
       /\ Fl(r, AF) = (IF IsAdd THEN (a % 16) + (b % 16) + Cin > 15 ELSE (a % 16) < (b % 16) + Cin)
       /\ r.def = Status /\ r.undef = 0
       /\ r.fl \in 0 .. Status /\ r.res \in 0 .. Pow2(w) - 1

\* bit-serial adder / subtractor agree with the carry-chain formulas
RippleAgree ==
  a >= 0 =>
  \A b \in Vals(w) :
    LET r == BinArith(op, w, a, b, c)
        p == IF IsAdd THEN RippleAdd(w, a, b, Cin, 0) ELSE RippleSub(w, a, b, Cin, 0)
    IN /\ (op # "cmp" => r.res = p[1])
       /\ Fl(r, CF) = (p[2] = 1)
       /\ Fl(r, OF) = (p[2] # p[3])

\* a word operation is two byte operations chained through the carry (the ripple lemma
\* the thorough tier of C01 relies on)
RippleLemma ==
  (a >= 0 /\ w = 16) =>
  \A b \in Vals(16) :
    LET r == BinArith(op, 16, a, b, c)
        lo == IF IsAdd THEN AddW(8, Lo(a), Lo(b), Cin) ELSE SubW(8, Lo(a), Lo(b), Cin)
        cl == IF FlagSet(lo.fl, CF) THEN 1 ELSE 0
        hi == IF IsAdd THEN AddW(8, Hi(a), Hi(b), cl) ELSE SubW(8, Hi(a), Hi(b), cl)
        v == hi.res * 256 + lo.res
    IN /\ (op # "cmp" => r.res = v)
       /\ Fl(r, CF) = FlagSet(hi.fl, CF) /\ Fl(r, OF) = FlagSet(hi.fl, OF)
       /\ Fl(r, SF) = FlagSet(hi.fl, SF) /\ Fl(r, AF) = FlagSet(lo.fl, AF)
       /\ Fl(r, PF) = FlagSet(lo.fl, PF)
       /\ Fl(r, ZF) = (FlagSet(hi.fl, ZF) /\ FlagSet(lo.fl, ZF))

\* INC/DEC = ADD/SUB 1 except that CF is not written; NEG x = 0 - x; CMP = SUB without store
UnaryLaws ==
  a >= 0 =>
  LET i == Inc(w, a)  d == Dec(w, a)  n == Neg(w, a)
      ia == AddW(w, a, 1, 0)  ds == SubW(w, a, 1, 0)
  IN /\ i.res = (a + 1) % Pow2(w) /\ d.res = (a - 1) % Pow2(w)
     /\ i.def = Status - CF /\ d.def = Status - CF
     /\ ~FlagSet(i.fl, CF) /\ ~FlagSet(d.fl, CF)
     /\ i.fl = ia.fl - B(FlagSet(ia.fl, CF), CF) /\ d.fl = ds.fl - B(FlagSet(ds.fl, CF), CF)
     /\ n.res = (Pow2(w) - a) % Pow2(w)
     /\ FlagSet(n.fl, CF) = (a # 0)
     /\ FlagSet(n.fl, OF) = (a = Pow2(w - 1))
     /\ FlagSet(n.fl, SF) = (Sx(w, n.res) < 0)
     /\ \A b \in Vals(w) :
          LET cm == Cmp(w, a, b)  sb == SubW(w, a, b, 0) IN cm.res = a /\ cm.fl = sb.fl


\* Every recorded known finding is a genuine violation: on its witness the deviation's result differs
\* from the ideal one in exactly the way the finding says (so the invariants above are not vacuous and
\* the deviation cannot hide a conforming implementation)
DeviationsAreViolations ==
  /\ LET i == Inc(8, 255)  d == DevUnOp("Dev_IncDecWritesCF", "inc", 8, 255, 0)
     IN i.res = d.res /\ (i.def & CF) = 0 /\ (d.def & CF) = CF /\ FlagSet(d.fl, CF)
  /\ LET n == Neg(16, 0)  d == DevUnOp("Dev_NegZeroKeepsSF", "neg", 16, 0, SF)
     IN (n.def & SF) = SF /\ ~FlagSet(n.fl, SF) /\ (d.def & SF) = 0
  /\ LET m == MulDiv("imul", 8, 4, 0, 252)  d == DevMulDiv("Dev_Imul8Flags", "imul", 8, 4, 0, 252)
     IN m.ax = d.ax /\ m.ax = 65520 /\ ~FlagSet(m.fl, CF) /\ FlagSet(d.fl, CF) /\ FlagSet(d.fl, OF)
  /\ Cond("jle", ZF) /\ ~DevCond("Dev_JleConjunction", "jle", ZF)
  /\ LET s == [regs |-> [n \in RegNames |-> CASE n = "ss" -> 10 [] n = "bp" -> 6 [] OTHER -> 0], flags |-> 0, mem |-> << >>, bg |-> -1, stack |-> << >>]
         i == [cls |-> "lea", dst |-> [k |-> "reg16", r |-> "ax"], src |-> [k |-> "mem", seg |-> "", base |-> "bp", index |-> "", disp |-> 0]]
     IN Exec(s, i, 0).regs["ax"] = 6 /\ DevExec("Dev_LeaDsRelative", s, i, 0).regs["ax"] = 166 /\ DevApplies("Dev_LeaDsRelative", s, i)
  /\ DevChainApplies("Dev_MacroNestingLimit", 4096, 0, FALSE, FALSE, TRUE) /\ DevChainApplies("Dev_MacroNestingLimit", 129, 0, FALSE, FALSE, TRUE)
  \* an abort, a hang, a silent acceptance or a refusal within the limit are never the deviation
  /\ ~DevChainApplies("Dev_MacroNestingLimit", 4096, 134, FALSE, FALSE, FALSE) /\ ~DevChainApplies("Dev_MacroNestingLimit", 128, 0, FALSE, FALSE, TRUE)
  /\ ~DevChainApplies("Dev_MacroNestingLimit", 4096, 0, TRUE, FALSE, TRUE) /\ ~DevChainApplies("Dev_MacroNestingLimit", 4096, 0, FALSE, TRUE, FALSE)

(***************************************************************************)
(* C02: logic, shifts and rotates                                          *)
(***************************************************************************)
LogicOps == {"and", "or", "xor", "test"}
ShiftOps == {"sal", "shr", "sar", "rol", "ror", "rcl", "rcr"}
CONSTANT MaxCount          \* counts 0 .. MaxCount are compared (255 = every count)

InitC02 == op \in LogicOps \cup ShiftOps \cup {"not"} /\ w \in {8, 16} /\ a = -1 /\ c \in {0, 1}
SpecC02 == InitC02 /\ [][Next]_vars

\* second definition of the bitwise result: the Java-implemented operators of Bitwise
LogicLaws ==
  (a >= 0 /\ op \in LogicOps) =>
  \A b \in Vals(w) :
    LET r == Logic(op, w, a, b)
        v == CASE op \in {"and", "test"} -> a & b [] op = "or" -> a | b [] op = "xor" -> a ^^ b
    IN /\ r.res = (IF op = "test" THEN a ELSE v)
       /\ ~FlagSet(r.fl, CF) /\ ~FlagSet(r.fl, OF)
       /\ FlagSet(r.fl, ZF) = (v = 0) /\ FlagSet(r.fl, SF) = (v >= Pow2(w - 1))
       /\ FlagSet(r.fl, PF) = Parity8(v % 256)
       /\ r.def = CF + OF + SF + ZF + PF /\ r.undef = AF

NotLaws ==
  (a >= 0 /\ op = "not") =>
    LET r == NotW(w, a) IN r.res = (a ^^ (Pow2(w) - 1)) /\ r.def = 0 /\ r.undef = 0 /\ r.fl = 0

\* n single-bit steps (the manual's loop) agree with the closed form, for every count; oo is the OF that the
\* count-1 rule gave for the step just taken (the value before that step is known here, not in the closed form)
RECURSIVE OrbitOK(_, _, _, _)
OrbitOK(vv, cc, oo, n) ==
  /\ ShiftResult(op, w, a, c, n, <<vv, cc>>) = Shift(op, w, a, c, n)
  /\ (n = 0 \/ FlagSet(Shift(op, w, a, c, n).fl, OF) = oo)
  /\ (n = MaxCount \/ LET s == Step1(op, w, vv, cc) IN OrbitOK(s[1], s[2], Of1(op, w, vv, s[1], s[2]), n + 1))

OrbitAgree == (a >= 0 /\ op \in ShiftOps) => OrbitOK(a, c, FALSE, 0)

\* what the property states about a single count, on the closed form
ShiftLaws ==
  (a >= 0 /\ op \in ShiftOps) =>
  /\ LET r0 == Shift(op, w, a, c, 0) IN r0.res = a /\ r0.def = 0 /\ r0.undef = 0 /\ r0.fl = 0
  /\ \A n \in 1 .. MaxCount :
       LET r == Shift(op, w, a, c, n) IN
       /\ r.res \in 0 .. Pow2(w) - 1
       /\ (IsShift(op) => /\ FlagSet(r.fl, ZF) = (r.res = 0)
                           /\ FlagSet(r.fl, SF) = (r.res >= Pow2(w - 1))
                           /\ FlagSet(r.fl, PF) = Parity8(r.res % 256)
                           /\ (r.def & (SF + ZF + PF + CF)) = SF + ZF + PF + CF)
       /\ (~IsShift(op) => (r.def & (SF + ZF + PF + AF)) = 0 /\ (r.undef & (SF + ZF + PF + AF + CF)) = 0)
       /\ (r.def & OF) # 0 /\ (r.undef & OF) = 0
       /\ (op \in {"sar"} \/ (op = "shr" /\ n >= 2) => ~FlagSet(r.fl, OF))
       \* numeric meaning
       /\ (op = "sal" /\ n < w => r.res = (a * Pow2(n)) % Pow2(w))
       /\ (op = "shr" /\ n < w => r.res = a \div Pow2(n))
       /\ (op = "sar" /\ n < w => Sx(w, r.res) = Sx(w, a) \div Pow2(n))
       /\ (op \in {"rol", "ror"} /\ n % w = 0 => r.res = a)
       /\ (op \in {"rcl", "rcr"} /\ n % (w + 1) = 0 => r.res = a /\ FlagSet(r.fl, CF) = (c = 1))
       /\ (op \in {"sal", "shr"} /\ n > w => r.res = 0 /\ ~FlagSet(r.fl, CF))
       /\ (op = "sar" /\ n >= w => r.res = (IF a >= Pow2(w - 1) THEN Pow2(w) - 1 ELSE 0))

(***************************************************************************)
(* C03: multiply, divide, adjusts                                          *)
(***************************************************************************)
MulDivOps == {"mul", "imul", "div", "idiv"}
AdjustOps == {"aaa", "aas", "daa", "das", "aam", "aad", "cbw", "cwd"}
CONSTANT AxVals            \* AX values explored for the byte multiply/divide forms

InitC03 == /\ op \in MulDivOps \cup AdjustOps \cup {"bcd"} /\ a = -1 /\ c \in {0, 1}
           /\ w \in (IF op \in MulDivOps THEN {8, 16} ELSE {8})
NextC03 == a = -1 /\ UNCHANGED <<op, w, c>> /\
           a' \in (IF op \in MulDivOps /\ w = 8 THEN AxVals
                    ELSE IF op \in MulDivOps THEN Lattice16 \cap Word
                    ELSE IF op = "bcd" THEN 0 .. 255 ELSE 0 .. 255)
SpecC03 == InitC03 /\ [][NextC03]_vars

Add32(p, q) == LET lo == p[2] + q[2] IN << (p[1] + q[1] + lo \div 65536) % 65536, lo % 65536 >>
Sext32(x) == << IF x >= 32768 THEN 65535 ELSE 0, x >>
Abs(x) == IF x < 0 THEN -x ELSE x

ByteMulDivLaws ==
  (a >= 0 /\ op \in MulDivOps /\ w = 8) =>
  \A v \in Byte :
    LET r == MulDiv(op, 8, a, 0, v)
        al == Lo(a)
    IN CASE op = "mul" ->
              r.ok /\ r.ax = al * v /\ FlagSet(r.fl, CF) = (al * v > 255)
              /\ FlagSet(r.fl, OF) = FlagSet(r.fl, CF)
         [] op = "imul" ->
              LET p == Sx(8, al) * Sx(8, v) IN
              r.ok /\ Sx(16, r.ax) = p /\ FlagSet(r.fl, CF) = ~InRange(8, p)
              /\ FlagSet(r.fl, OF) = FlagSet(r.fl, CF)
         [] op = "div" ->
              IF v = 0 \/ a \div v > 255 THEN ~r.ok
              ELSE r.ok /\ Lo(r.ax) * v + Hi(r.ax) = a /\ Hi(r.ax) < v
         [] op = "idiv" ->
              LET n == Sx(16, a)  d == Sx(8, v) IN
              IF d = 0 THEN ~r.ok
              ELSE LET q == Sx(8, Lo(r.ax))  rm == Sx(8, Hi(r.ax)) IN
                   IF r.ok THEN /\ q * d + rm = n /\ Abs(rm) < Abs(d)
                                /\ (rm = 0 \/ (rm < 0) = (n < 0))
                                /\ r.qmin = (q = -128)
                   ELSE \* no byte quotient exists: |n| >= 128 * |d| (+ remainder)
                        \A q2 \in -128 .. 127 : ~(Abs(n - q2 * d) < Abs(d) /\ (n - q2 * d = 0 \/ (n - q2 * d < 0) = (n < 0)))

WordMulDivLaws ==
  (a >= 0 /\ op \in MulDivOps /\ w = 16) =>
  \A v \in Lattice16 \cap Word :
    /\ LET p == Mul16(a, v) IN
       /\ p = Mul16(v, a)
       /\ (a < 32768 => p[1] * 65536 + p[2] = a * v \/ p[1] >= 32768)
       /\ (a < 32768 /\ v < 32768 => p[1] * 65536 + p[2] = a * v)
       /\ (a >= 32768 => p = Add32(Mul16(a - 32768, v), << v \div 2, (v % 2) * 32768 >>))
    /\ LET p == IMul16(a, v) IN
       /\ p = IMul16(v, a)
       /\ (Abs(Sx(16, a)) < 256 /\ TRUE => LET m == Sx(16, a) * Sx(16, v) IN
              p = << (m \div 65536) % 65536, m % 65536 >>)
    /\ \A dx \in ({0, 1, 2, 255, 256, 32767, 32768, 65534, 65535} \cup {v - 1, v, v + 1}) \cap Word :
         LET rd == MulDiv("div", 16, a, dx, v)
             ri == MulDiv("idiv", 16, a, dx, v)
             rm == MulDiv("mul", 16, a, dx, v)
             rim == MulDiv("imul", 16, a, dx, v)
         IN /\ (op = "div" => IF v = 0 \/ dx >= v THEN ~rd.ok
                               ELSE rd.ok /\ rd.dx < v /\ Add32(Mul16(rd.ax, v), <<0, rd.dx>>) = <<dx, a>>)
            /\ (op = "idiv" /\ ri.ok =>
                  /\ Add32(IMul16(ri.ax, v), Sext32(ri.dx)) = <<dx, a>>
                  /\ Abs(Sx(16, ri.dx)) < Abs(Sx(16, v))
                  /\ (ri.dx = 0 \/ (ri.dx >= 32768) = (dx >= 32768))
                  /\ ri.qmin = (ri.ax = 32768))
            /\ (op = "idiv" /\ v = 0 => ~ri.ok)
            /\ (op = "mul" => rm.ok /\ <<rm.dx, rm.ax>> = Mul16(a, v)
                               /\ FlagSet(rm.fl, CF) = (rm.dx # 0) /\ FlagSet(rm.fl, OF) = FlagSet(rm.fl, CF))
            /\ (op = "imul" => rim.ok /\ <<rim.dx, rim.ax>> = IMul16(a, v)
                               /\ FlagSet(rim.fl, CF) = (Sext32(rim.ax) # <<rim.dx, rim.ax>>)
                               /\ FlagSet(rim.fl, OF) = FlagSet(rim.fl, CF))

\* a = AH (for cbw/cwd/aad: high byte), every AL inside
IsBcd(x) == x % 16 <= 9 /\ x \div 16 <= 9
BcdVal(x) == (x \div 16) * 10 + (x % 16)
AdjustLaws ==
  (a >= 0 /\ op \in AdjustOps) =>
  \A al \in Byte :
    LET ax == a * 256 + al IN
    \A f \in {c, c + AF, c + 65518 - 2048, c + AF + 65518 - 2048 - 16} :   \* CF = c, AF both ways, two backgrounds
      LET r == Adjust(op, ax, 4660, f) IN
      /\ r.ax \in Word /\ r.dx \in Word /\ (r.def & r.undef) = 0
      /\ (op = "cbw" => Sx(16, r.ax) = Sx(8, al) /\ r.dx = 4660 /\ r.def = 0 /\ r.undef = 0)
      /\ (op = "cwd" => r.ax = ax /\ r.dx = (IF ax >= 32768 THEN 65535 ELSE 0) /\ r.def = 0)
      /\ (op = "aam" => Hi(r.ax) * 10 + Lo(r.ax) = al /\ Lo(r.ax) < 10
                         /\ FlagSet(r.fl, ZF) = (Lo(r.ax) = 0) /\ ~FlagSet(r.fl, SF))
      /\ (op = "aad" => Hi(r.ax) = 0 /\ Lo(r.ax) = (a * 10 + al) % 256)
      /\ (op \in {"aaa", "aas"} => Lo(r.ax) < 16 /\ FlagSet(r.fl, CF) = FlagSet(r.fl, AF)
                                     /\ r.def = AF + CF)
      /\ (op \in {"daa", "das"} => Hi(r.ax) = a /\ r.def = AF + CF + SF + ZF + PF /\ r.undef = OF)

\* BCD theorems: a = x (packed BCD or digit), every y inside, c = carry-in
BcdLaws ==
  (a >= 0 /\ op = "bcd") =>
  \A y \in Byte :
    /\ (IsBcd(a) /\ IsBcd(y) =>
         \* the hardware reading always yields the decimal sum / difference ...
         /\ LET s == AddW(8, a, y, c)
                 r == AdjustHw("daa", s.res, 0, s.fl)
                 m == Adjust("daa", s.res, 0, s.fl)
                 t == BcdVal(a) + BcdVal(y) + c
             IN /\ IsBcd(Lo(r.ax)) /\ BcdVal(Lo(r.ax)) = t % 100 /\ FlagSet(r.fl, CF) = (t >= 100)
                \* ... and the literal pseudo-code agrees with it unless the +6 step wraps the byte
                /\ (s.res < 250 => m = r)
         /\ LET s == SubW(8, a, y, c)
                 r == AdjustHw("das", s.res, 0, s.fl)
                 m == Adjust("das", s.res, 0, s.fl)
                 t == BcdVal(a) - BcdVal(y) - c
             IN /\ IsBcd(Lo(r.ax)) /\ BcdVal(Lo(r.ax)) = t % 100 /\ FlagSet(r.fl, CF) = (t < 0)
                /\ (s.res >= 6 => m = r))
    /\ (a <= 9 /\ y <= 9 =>
         /\ LET s == AddW(8, a, y, c)
                 r == Adjust("aaa", 5 * 256 + s.res, 0, s.fl)
                 t == a + y + c
             IN Lo(r.ax) = t % 10 /\ Hi(r.ax) = 5 + t \div 10 /\ FlagSet(r.fl, CF) = (t >= 10)
         /\ LET s == SubW(8, a, y, c)
                 r == Adjust("aas", 5 * 256 + s.res, 0, s.fl)
                 t == a - y - c
             IN Lo(r.ax) = t % 10 /\ Hi(r.ax) = (IF t < 0 THEN 4 ELSE 5) /\ FlagSet(r.fl, CF) = (t < 0)
         /\ LET m == Mul8(a, 0, y)
                 r == Adjust("aam", m.ax, 0, 0)
             IN Hi(r.ax) = (a * y) \div 10 /\ Lo(r.ax) = (a * y) % 10
         /\ LET r == Adjust("aad", a * 256 + y, 0, 0) IN r.ax = a * 10 + y)

(***************************************************************************)
(* C06: conditions                                                         *)
(***************************************************************************)
InitC06 == op \in {"flags", "compare", "cx"} /\ w = 8 /\ a = -1 /\ c \in {0, 1}
SpecC06 == InitC06 /\ [][Next]_vars

\* a = high byte of the flag word, every low byte inside: all 2^16 flag words
Complementary ==
  (a >= 0 /\ op = "flags" /\ c = 0) =>
  \A lo \in Byte :
    LET f == a * 256 + lo IN
    /\ \A mn \in CondMnemonics : Cond(mn, f) # Cond(Complement(mn), f)
    /\ Cond("jb", f) = Cond("jc", f) /\ Cond("jae", f) = Cond("jnc", f)
    /\ Cond("jmp", f)
    /\ \A s \in {"jnbe", "jnb", "jnae", "jna", "jz", "jnle", "jnl", "jnge", "jng", "jnz", "jpo", "jpe"} :
         Canon(s) \in CondMnemonics

\* the table means what the manual says about comparing: flags := a - b
CompareMeaning ==
  (a >= 0 /\ op = "compare" /\ c = 0) =>
  \A b \in Byte :
    LET f == SubW(8, a, b, 0).fl
        sa == Sx(8, a)  sb == Sx(8, b)
    IN /\ Cond("ja", f) = (a > b) /\ Cond("jae", f) = (a >= b)
       /\ Cond("jb", f) = (a < b) /\ Cond("jbe", f) = (a <= b)
       /\ Cond("jg", f) = (sa > sb) /\ Cond("jge", f) = (sa >= sb)
       /\ Cond("jl", f) = (sa < sb) /\ Cond("jle", f) = (sa <= sb)
       /\ Cond("je", f) = (a = b) /\ Cond("jne", f) = (a # b)
       /\ Cond("js", f) = (Sx(8, (a - b) % 256) < 0)
       /\ Cond("jo", f) = ~InRange(8, sa - sb)
       /\ Cond("jp", f) = Parity8((a - b) % 256)

\* a = high byte of CX, every low byte inside; c = ZF
LoopMeaning ==
  (a >= 0 /\ op = "cx") =>
  \A lo \in Byte :
    LET cx == a * 256 + lo
        f == c * ZF
        cx2 == (cx - 1) % 65536
    IN /\ LoopTaken("loop", cx2, f) = (cx # 1)
       /\ LoopTaken("loope", cx2, f) = (cx # 1 /\ c = 1)
       /\ LoopTaken("loopne", cx2, f) = (cx # 1 /\ c = 0)
       /\ Canon("loopz") = "loope" /\ Canon("loopnz") = "loopne"

=============================================================================
