------------------------------- MODULE MC_Alu -------------------------------
(***************************************************************************)
(* Bounded models that check the ALU part of the specification against     *)
(* independent characterisations (C01): every flag formula of Alu.tla is    *)
(* stated a second time -- arithmetically on signed/unsigned values and     *)
(* bit-serially -- and TLC compares the two on all byte operands and on a   *)
(* boundary lattice of word operands.                                       *)
(***************************************************************************)
EXTENDS Alu, TLC

VARIABLES op, w, a, c
vars == <<op, w, a, c>>

Lattice16 ==
  {0, 1, 2, 3, 9, 10, 15, 16, 17, 127, 128, 129, 254, 255, 256, 257, 4095, 4096, 4097,
   32766, 32767, 32768, 32769, 65534, 65535, 61440, 65280, 240, 65520, 21845, 43690}
  \cup UNION {{Pow2(k) - 1, Pow2(k), Pow2(k) + 1, 65536 - Pow2(k), 65535 - Pow2(k), 65537 - Pow2(k)} : k \in 2 .. 15}

Vals(ww) == IF ww = 8 THEN Byte ELSE Lattice16 \cap Word

BinOps == {"add", "adc", "sub", "sbb", "cmp"}

\* a = -1 is a root state; its successors (explored by all TLC workers) carry the operand
Init == op \in BinOps /\ w \in {8, 16} /\ a = -1 /\ c \in {0, 1}
Next == a = -1 /\ a' \in Vals(w) /\ UNCHANGED <<op, w, c>>
Spec == Init /\ [][Next]_vars

InRange(ww, v) == v >= -Pow2(ww - 1) /\ v <= Pow2(ww - 1) - 1
Fl(r, m) == FlagSet(r.fl, m)

\* the carry actually consumed by the operation
Cin == IF op \in {"adc", "sbb"} THEN c ELSE 0
IsAdd == op \in {"add", "adc"}

\* arithmetic characterisation of result and the six flags
ArithChar ==
  a >= 0 =>
  \A b \in Vals(w) :
    LET r == BinArith(op, w, a, b, c)
        u == IF IsAdd THEN a + b + Cin ELSE a - b - Cin
        s == IF IsAdd THEN Sx(w, a) + Sx(w, b) + Cin ELSE Sx(w, a) - Sx(w, b) - Cin
        v == u % Pow2(w)
    IN /\ (IF op = "cmp" THEN r.res = a ELSE r.res = v)
       /\ Fl(r, CF) = (u < 0 \/ u >= Pow2(w))
       /\ Fl(r, OF) = ~InRange(w, s)
       /\ Fl(r, ZF) = (v = 0)
       /\ Fl(r, SF) = (Sx(w, v) < 0)
       /\ Fl(r, PF) = Parity8(v % 256)
       /\ Fl(r, AF) = (IF IsAdd THEN (a % 16) + (b % 16) + Cin > 15 ELSE (a % 16) < (b % 16) + Cin)
       /\ r.def = Status /\ r.undef = 0
       /\ r.fl \in 0 .. Status /\ r.res \in 0 .. Pow2(w) - 1

\* bit-serial adder / subtractor agree with the carry-chain formulas
RippleAgree ==
  a >= 0 =>
  \A b \in Vals(w) :
    LET r == BinArith(op, w, a, b, c)
        p == IF IsAdd THEN RippleAdd(w, a, b, Cin, 0) ELSE RippleSub(w, a, b, Cin, 0)
    IN /\ (op # "cmp" => r.res = p[1])
       /\ Fl(r, CF) = (p[2] = 1)
       /\ Fl(r, OF) = (p[2] # p[3])

\* a word operation is two byte operations chained through the carry (the ripple lemma
\* the thorough tier of C01 relies on)
RippleLemma ==
  (a >= 0 /\ w = 16) =>
  \A b \in Vals(16) :
    LET r == BinArith(op, 16, a, b, c)
        lo == IF IsAdd THEN AddW(8, Lo(a), Lo(b), Cin) ELSE SubW(8, Lo(a), Lo(b), Cin)
        cl == IF FlagSet(lo.fl, CF) THEN 1 ELSE 0
        hi == IF IsAdd THEN AddW(8, Hi(a), Hi(b), cl) ELSE SubW(8, Hi(a), Hi(b), cl)
        v == hi.res * 256 + lo.res
    IN /\ (op # "cmp" => r.res = v)
       /\ Fl(r, CF) = FlagSet(hi.fl, CF) /\ Fl(r, OF) = FlagSet(hi.fl, OF)
       /\ Fl(r, SF) = FlagSet(hi.fl, SF) /\ Fl(r, AF) = FlagSet(lo.fl, AF)
       /\ Fl(r, PF) = FlagSet(lo.fl, PF)
       /\ Fl(r, ZF) = (FlagSet(hi.fl, ZF) /\ FlagSet(lo.fl, ZF))

\* INC/DEC = ADD/SUB 1 except that CF is not written; NEG x = 0 - x; CMP = SUB without store
UnaryLaws ==
  a >= 0 =>
  LET i == Inc(w, a)  d == Dec(w, a)  n == Neg(w, a)
      ia == AddW(w, a, 1, 0)  ds == SubW(w, a, 1, 0)
  IN /\ i.res = (a + 1) % Pow2(w) /\ d.res = (a - 1) % Pow2(w)
     /\ i.def = Status - CF /\ d.def = Status - CF
     /\ ~FlagSet(i.fl, CF) /\ ~FlagSet(d.fl, CF)
     /\ i.fl = ia.fl - B(FlagSet(ia.fl, CF), CF) /\ d.fl = ds.fl - B(FlagSet(ds.fl, CF), CF)
     /\ n.res = (Pow2(w) - a) % Pow2(w)
     /\ FlagSet(n.fl, CF) = (a # 0)
     /\ FlagSet(n.fl, OF) = (a = Pow2(w - 1))
     /\ FlagSet(n.fl, SF) = (Sx(w, n.res) < 0)
     /\ \A b \in Vals(w) :
          LET cm == Cmp(w, a, b)  sb == SubW(w, a, b, 0) IN cm.res = a /\ cm.fl = sb.fl

=============================================================================
