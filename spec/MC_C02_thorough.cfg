SPECIFICATION SpecC02
CONSTANT MaxCount = 255
CONSTANT AxVals = {0}
INVARIANT LogicLaws
INVARIANT NotLaws
INVARIANT OrbitAgree
INVARIANT ShiftLaws
CHECK_DEADLOCK FALSE
