------------------------------- MODULE Driver -------------------------------
(***************************************************************************)
(* The command-line driver around the machine (src/driver/*.rs, bin.rs):   *)
(* assembling a program's items into the instruction list and the label    *)
(* tables, loading the data image, the run loop with its dispatch on the   *)
(* interpreter's outcome, the prompt sub-loop, print statements, the       *)
(* console interrupt services, and everything written to stdout.           *)
(*                                                                         *)
(* A program P is a record                                                 *)
(*   data   : sequence of data items  [k:"set",v] / [k:"def",dir,form,...] *)
(*   items  : sequence of code items  [k:"label",name] / [k:"ins",ast,     *)
(*            line,text,textb] / [k:"proc",name,body,endline,endtext,...]  *)
(*   interp : BOOLEAN (the -i flag)                                        *)
(* Compile(P) gives the emitted instruction list (one entry per source     *)
(* instruction, the implied RET of a procedure carrying the position of    *)
(* its closing brace), the code-label table (label -> index of the next    *)
(* emitted instruction) and the procedure table.                           *)
(*                                                                         *)
(* The driver state is a record d:                                         *)
(*   m      machine state (Machine.tla)      idx   index of the next line  *)
(*   phase  "fetch" | "prompt" | "done"      out   expected stdout chunks  *)
(*   stdin  remaining input lines            rep   last answer was REPEAT  *)
(*   after  what leaving the prompt does ("invoke" | "advance")            *)
(* stdout is a sequence of byte sequences (chunks); Flat joins them.       *)
(***************************************************************************)
EXTENDS Machine, Msgs

NL == 10
TAB == 9
SPC == 32

(***************************************************************************)
(* Byte-string helpers                                                     *)
(***************************************************************************)
RECURSIVE DecDigits(_)
DecDigits(n) == IF n < 10 THEN <<48 + n>> ELSE Append(DecDigits(n \div 10), 48 + (n % 10))
HexDigit(x) == IF x < 10 THEN 48 + x ELSE 55 + x                   \* upper case
Hex2(b) == <<HexDigit(b \div 16), HexDigit(b % 16)>>
Hex4(w) == Hex2(w \div 256) \o Hex2(w % 256)
\* Rust prints a byte as `b as char`: the Unicode scalar U+00bb in UTF-8
Utf8(b) == IF b < 128 THEN <<b>> ELSE <<192 + b \div 64, 128 + (b % 64)>>

\* concatenation of a sequence of byte strings, by halving (n log n copying: the streams compared can be 1 MB long)
RECURSIVE FlatRange(_, _, _)
FlatRange(chunks, lo, hi) ==
  IF lo > hi THEN << >>
  ELSE IF lo = hi THEN chunks[lo]
  ELSE LET mid == (lo + hi) \div 2 IN FlatRange(chunks, lo, mid) \o FlatRange(chunks, mid + 1, hi)
Flat(chunks) == FlatRange(chunks, 1, Len(chunks))
\* stdout chunks carry a tag saying which part of the driver wrote them
FlatOut(out) == Flat([k \in 1 .. Len(out) |-> out[k].b])

\* white-space normalisation used when comparing stdout: runs of blanks/tabs collapse to one
\* blank, blanks before a line end disappear (the properties fix values and rows, not spacing)
IsBlank(b) == b = SPC \/ b = TAB
\* what position k of s contributes: a blank nothing, a line end itself, any other byte itself, preceded by one
\* blank when the byte before it is a blank
NormPiece(s, k) ==
  IF IsBlank(s[k]) THEN << >>
  ELSE IF s[k] = NL THEN <<NL>>
  ELSE IF k > 1 /\ IsBlank(s[k - 1]) THEN <<SPC, s[k]>> ELSE <<s[k]>>
Norm(s) == Flat([k \in 1 .. Len(s) |-> NormPiece(s, k)])

(***************************************************************************)
(* Assembling: items -> instruction list and tables                        *)
(***************************************************************************)
Entry(ast, line, text, textb) == [ast |-> ast, line |-> line, text |-> text, textb |-> textb]

RECURSIVE CompileSeq(_, _, _)
CompileSeq(items, k, acc) ==
  IF k > Len(items) THEN acc
  ELSE LET it == items[k] IN
    CASE it.k = "label" ->
           CompileSeq(items, k + 1,
             [acc EXCEPT !.labels = IF it.name \in DOMAIN @ THEN @ ELSE (it.name :> Len(acc.code)) @@ @])
      [] it.k = "ins" ->
           CompileSeq(items, k + 1, [acc EXCEPT !.code = Append(@, Entry(it.ast, it.line, it.text, it.textb))])
      \* it.n lines holding the same instruction, one per line from it.line on (large programs in one item)
      [] it.k = "fill" ->
           CompileSeq(items, k + 1,
             [acc EXCEPT !.code = @ \o [j \in 1 .. it.n |-> Entry(it.ast, it.line + j - 1, it.text, it.textb)]])
      [] it.k = "proc" ->
           LET a1 == [acc EXCEPT !.procs = (it.name :> Len(acc.code)) @@ @]
               a2 == CompileSeq(it.body, 1, a1)
           IN CompileSeq(items, k + 1,
                [a2 EXCEPT !.code = Append(@, Entry([cls |-> "ret"], it.endline, it.endtext, it.endtextb))])

Compile(P) == CompileSeq(P.items, 1, [code |-> << >>, labels |-> << >>, procs |-> << >>])

HltIns == [cls |-> "ctl", op |-> "hlt"]

\* a data-label operand denotes the offset the data section gives its label (C12)
ResolveOpnd(dl, o) ==
  IF o.k = "label" THEN [o EXCEPT !.off = dl[o.name]]
  ELSE IF o.k = "offset" THEN [k |-> "imm", v |-> dl[o.name]]   \* OFFSET name: a constant
  ELSE o
ResolveOperands(dl, a) ==
  LET f1 == IF "dst" \in DOMAIN a THEN [a EXCEPT !.dst = ResolveOpnd(dl, a.dst)] ELSE a
      f2 == IF "src" \in DOMAIN f1 THEN [f1 EXCEPT !.src = ResolveOpnd(dl, f1.src)] ELSE f1
      f3 == IF "a" \in DOMAIN f2 THEN [f2 EXCEPT !.a = ResolveOpnd(dl, f2.a)] ELSE f2
  IN IF "b" \in DOMAIN f3 THEN [f3 EXCEPT !.b = ResolveOpnd(dl, f3.b)] ELSE f3

\* print statements may write a constant as `offset <data label>` (field <f>sym): linking replaces it by the offset
LinkWhat(dl, wh) ==
  [f \in DOMAIN wh \ {"asym", "bsym", "nsym"} |->
     IF f \in {"a", "b", "n"} /\ (f \o "sym") \in DOMAIN wh THEN dl[wh[f \o "sym"]] ELSE wh[f]]
Link(C, dl) ==
  [C EXCEPT !.code = [k \in 1 .. Len(C.code) |->
     IF C.code[k].ast.cls = "print" /\ \A nm \in {C.code[k].ast.what[f] : f \in DOMAIN C.code[k].ast.what \cap {"asym", "bsym", "nsym"}} : nm \in DOMAIN dl
     THEN [C.code[k] EXCEPT !.ast.what = LinkWhat(dl, @)] ELSE C.code[k]]]

\* the instruction at 0-based index idx of the list the driver runs (its own `hlt` appended);
\* dl = data-label offsets
InsAt(C, dl, idx) ==
  IF idx >= Len(C.code) THEN HltIns
  ELSE LET a == C.code[idx + 1].ast IN
    CASE a.cls = "jcc"  -> [cls |-> "jcc", mn |-> a.mn, target |-> C.labels[a.label]]
      [] a.cls = "call" -> [cls |-> "call", target |-> C.procs[a.proc]]
      [] OTHER -> ResolveOperands(dl, a)

(***************************************************************************)
(* Loading: data items -> memory image (C12)                               *)
(***************************************************************************)
ItemBytes(it) ==
  LET n == IF "n" \in DOMAIN it THEN it.n ELSE 0
      v == IF "v" \in DOMAIN it THEN it.v ELSE 0
  IN IF it.dir = "db"
     THEN CASE it.form = "num"  -> <<v % 256>>
            [] it.form = "zero" -> [k \in 1 .. n |-> 0]
            [] it.form = "fill" -> [k \in 1 .. n |-> v % 256]
            [] it.form = "str"  -> it.bytes
     ELSE CASE it.form = "num"  -> <<Lo(v % 65536), Hi(v % 65536)>>
            [] it.form = "zero" -> [k \in 1 .. 2 * n |-> 0]
            [] it.form = "fill" -> [k \in 1 .. 2 * n |-> IF k % 2 = 1 THEN Lo(v % 65536) ELSE Hi(v % 65536)]
            [] it.form = "str"  -> [k \in 1 .. 2 * Len(it.bytes) |-> IF k % 2 = 1 THEN it.bytes[(k + 1) \div 2] ELSE 0]

\* acc = [seg, ctr, mem (address -> byte, only non-zero bytes), labels (name -> offset), over (BOOLEAN)]
\* A definition of n bytes starting at physical address base covers the addresses a with
\* (a - base) mod 2^20 < n; later definitions overwrite earlier ones.
Covered(a, base, n) == (a - base) % MB < n
ItemLen(it) ==
  LET n == IF "n" \in DOMAIN it THEN it.n ELSE 0
      e == IF it.dir = "db" THEN 1 ELSE 2
  IN CASE it.form = "num" -> e [] it.form \in {"zero", "fill"} -> n * e [] it.form = "str" -> e * Len(it.bytes)
IsZeroItem(it) == it.form = "zero" \/ (it.form = "fill" /\ it.v % 65536 = 0) \/ (it.form = "num" /\ it.v % 65536 = 0)

RECURSIVE LoadSeq(_, _, _)
LoadSeq(data, k, acc) ==
  IF k > Len(data) THEN acc
  ELSE LET it == data[k] IN
    IF it.k = "set" THEN LoadSeq(data, k + 1, [acc EXCEPT !.seg = it.v, !.ctr = 0])
    ELSE LET len == ItemLen(it)
             base == (acc.seg * 16 + acc.ctr) % MB
             kept == [a \in {x \in DOMAIN acc.mem : ~Covered(x, base, len)} |-> acc.mem[a]]
             w == IF IsZeroItem(it) THEN << >>
                  ELSE LET bs == ItemBytes(it)
                           nz == {i \in 1 .. Len(bs) : bs[i] # 0}
                       \* (an item is at most 64 KiB long: its bytes lie on distinct addresses)
                       IN [j \in {(base + i - 1) % MB : i \in nz} |-> bs[((j - base) % MB) + 1]]
             lbls == IF it.label # "" THEN (it.label :> acc.ctr) @@ acc.labels ELSE acc.labels
         IN LoadSeq(data, k + 1,
              [acc EXCEPT !.mem = w @@ kept, !.ctr = @ + len, !.labels = lbls,
                          !.over = @ \/ acc.ctr + len > 65536])

Load(P) == LoadSeq(P.data, 1, [seg |-> 0, ctr |-> 0, mem |-> << >>, labels |-> << >>, over |-> FALSE])

\* the machine when the run loop starts: data image, DS = 0, FLAGS = F000h, CS = FFFFh
InitRegs == FreshRegs
InitFlags == FreshFlags
BootMachine(image) == [regs |-> InitRegs, flags |-> InitFlags, mem |-> image, bg |-> -1, stack |-> << >>]

(***************************************************************************)
(* print flags / reg / mem (C17)                                           *)
(***************************************************************************)
FlagBit(f, m) == IF FlagSet(f, m) THEN 49 ELSE 48
PrintFlags(m) ==
  LET f == m.flags
      vals == <<FlagBit(f, OF), FlagBit(f, DF), FlagBit(f, IFL), FlagBit(f, TF), FlagBit(f, SF),
                FlagBit(f, ZF), FlagBit(f, AF), FlagBit(f, PF), FlagBit(f, CF)>>
  IN Flat([k \in 1 .. 9 |-> FlagLabels[k] \o <<vals[k]>> \o (IF k < 9 THEN <<TAB>> ELSE <<NL>>)])

PrintRegs(m) ==
  LET r == m.regs
      v == <<r["ax"], r["sp"], r["bx"], r["bp"], r["cx"], r["si"], r["dx"], r["di"], r["cs"], r["ss"], r["ds"], r["es"]>>
      row(k) == RegLabels[k] \o Hex4(v[k]) \o <<TAB, TAB>> \o RegLabels[k + 1] \o Hex4(v[k + 1]) \o <<NL>>
  IN row(1) \o row(3) \o row(5) \o row(7) \o <<NL>> \o row(9) \o row(11)

\* bytes a .. b inclusive in address order, two hex digits each, 16 per row
MemDump(m, a, b) ==
  Flat([k \in 1 .. (b - a + 1) |->
          Hex2(Rd(m, a + k - 1)) \o <<TAB>> \o
          (IF k % 16 = 0 THEN <<TAB, NL>> ELSE IF k % 8 = 0 THEN <<TAB>> ELSE << >>)])
  \o (IF (b - a + 1) % 16 # 0 THEN <<NL>> ELSE << >>)

\* what : [k:"flags"] [k:"reg"] [k:"range",a,b] [k:"span",a,n] [k:"dsspan",n]
\* result [ok |-> the command is answered (FALSE: refused as invalid input), out |-> bytes]
\* constants are reduced modulo 2^20 by both readers before anything else (DESIGN 7.9)
PrintOut(m, what) ==
  LET a == IF "a" \in DOMAIN what THEN what.a % MB ELSE 0
      b == IF "b" \in DOMAIN what THEN what.b % MB ELSE 0
      n == IF "n" \in DOMAIN what THEN what.n % MB ELSE 0
  IN
  CASE what.k = "flags" -> [ok |-> TRUE, out |-> PrintFlags(m)]
    [] what.k = "reg"   -> [ok |-> TRUE, out |-> PrintRegs(m)]
    [] what.k = "range" ->
         IF a > b
         THEN [ok |-> TRUE, out |-> MsgBackwards \o DecDigits(a) \o MsgGt \o DecDigits(b) \o <<NL>>]
         ELSE [ok |-> TRUE, out |-> MemDump(m, a, b)]
    [] what.k = "span"  ->
         IF a + n >= MB THEN [ok |-> FALSE, out |-> << >>]
         ELSE [ok |-> TRUE, out |-> MemDump(m, a, a + n)]
    [] what.k = "dsspan" ->
         LET st == m.regs["ds"] * 16 IN
         IF st + n >= MB
         THEN [ok |-> TRUE, out |-> MsgDsOverflowA \o DecDigits(st) \o MsgDsOverflowB \o DecDigits(st + n) \o <<NL>>]
         ELSE [ok |-> TRUE, out |-> MemDump(m, st, st + n)]

(***************************************************************************)
(* Messages citing a source line (C16)                                     *)
(***************************************************************************)
Banner(e, tf) ==
  MsgAbout \o DecDigits(e.line) \o MsgColon \o e.textb \o <<NL>> \o (IF tf THEN MsgTrap \o <<NL>> ELSE << >>)
PrintBanner(e) == MsgOutputOf \o DecDigits(e.line) \o MsgColon \o e.textb \o MsgOutputEnd \o <<NL>>
Int3Banner(e) == MsgInt3 \o DecDigits(e.line) \o <<NL>>
Div0Banner(e) == MsgDiv0 \o DecDigits(e.line) \o MsgColon \o e.textb \o <<NL>> \o MsgExiting \o <<NL>>
BadAhBanner(e, ah) ==
  MsgErrAtLine \o DecDigits(e.line) \o MsgColon \o e.textb \o MsgAhValue \o DecDigits(ah) \o MsgAhUnsupported \o <<NL>>
  \o MsgExiting \o <<NL>>

(***************************************************************************)
(* Console interrupt services (C18).  line = the stdin line consumed (a    *)
(* byte sequence including its newline if it had one), << >> at end of     *)
(* input.  Result: [m, out, reads (0/1), freemem]                          *)
(***************************************************************************)
StripNl(line) ==
  LET n == Len(line)
      a == IF n >= 1 /\ line[n] = NL THEN SubSeq(line, 1, n - 1) ELSE line
      k == Len(a)
  IN IF k >= 1 /\ a[k] = 13 THEN SubSeq(a, 1, k - 1) ELSE a

SupportedAh(n, ah) == (n = 16 /\ ah \in {10, 19}) \/ (n = 33 /\ ah \in {1, 2, 10})
ReadsStdin(n, ah) == n = 33 /\ ah \in {1, 10}

Service(m, n, ah, line) ==
  LET r == m.regs
      al == Lo(r["ax"])  dl == Lo(r["dx"])  cx == r["cx"]
      noop == [m |-> m, out |-> << >>, freemem |-> {}]
  IN CASE n = 16 /\ ah = 10 -> [noop EXCEPT !.out = Flat([k \in 1 .. cx |-> Utf8(al)])]
       [] n = 16 /\ ah = 19 ->
            [noop EXCEPT !.out = [k \in 1 .. dl |-> SPC] \o
                                 Flat([k \in 1 .. cx |-> Utf8(Rd(m, (Phys(r["es"], r["bp"]) + k - 1) % MB))])]
       [] n = 33 /\ ah = 1 ->
            [noop EXCEPT !.m = [m EXCEPT !.regs = Set8(r, "al", IF line = << >> THEN 0 ELSE line[1])]]
       [] n = 33 /\ ah = 2 ->
            [noop EXCEPT !.out = Utf8(dl), !.m = [m EXCEPT !.regs = Set8(r, "al", dl)]]
       [] n = 33 /\ ah = 10 ->
            LET base == Phys(r["ds"], r["dx"])
                cap == Rd(m, base)
                txt == StripNl(line)
                cnt == IF Len(txt) < cap THEN Len(txt) ELSE cap
                w == ((base + 1) % MB :> cnt) @@ [a \in {(base + 1 + k) % MB : k \in 1 .. cnt} |->
                        txt[CHOOSE k \in 1 .. cnt : (base + 1 + k) % MB = a]]
            IN [m |-> [m EXCEPT !.mem = w @@ @], out |-> << >>,
                \* the terminator may be stored after the text when it fits (DESIGN 7.11)
                freemem |-> IF cnt < cap THEN {(base + 2 + cnt) % MB} ELSE {}]

(***************************************************************************)
(* The run loop as a transition function on the driver record              *)
(***************************************************************************)
Stepping(P, d) == P.interp \/ FlagSet(d.m.flags, TF)
\* a prompt precedes the invocation of every real instruction while stepping (not the appended hlt)
PromptDue(P, C, d) == Stepping(P, d) /\ d.idx < Len(C.code)

Emit(d, tag, bytes) == [d EXCEPT !.out = Append(@, [t |-> tag, b |-> bytes])]

\* dispatch on the interpreter's answer <<outcome, arg>>, machine already updated to m2
Dispatch(C, d, m2, o) ==
  LET d2 == [d EXCEPT !.m = m2, !.rep = FALSE]
      e == IF d.idx < Len(C.code) THEN C.code[d.idx + 1] ELSE Entry(HltIns, 0, "", << >>)
      ah == Hi(m2.regs["ax"])
  IN CASE o[1] = "NEXT"   -> [d2 EXCEPT !.idx = @ + 1]
       [] o[1] = "JMP"    -> [d2 EXCEPT !.idx = o[2]]
       [] o[1] = "REPEAT" -> [d2 EXCEPT !.rep = TRUE]
       [] o[1] = "HALT"   -> [d2 EXCEPT !.phase = "done", !.why = "halt"]
       [] o[1] = "ERR"    -> [d2 EXCEPT !.phase = "done", !.why = "error", !.outfree = TRUE]
       [] o[1] = "PRINT"  -> [Emit(Emit(d2, "banner", PrintBanner(e)), "print",
                                   \* (an answer PRINT for a line that is no print statement is judged by the caller)
                                   IF e.ast.cls = "print" THEN PrintOut(m2, e.ast.what).out ELSE << >>) EXCEPT !.idx = @ + 1]
       [] o[1] = "INT" ->
            CASE o[2] = 0 -> [Emit(d2, "banner", Div0Banner(e)) EXCEPT !.phase = "done", !.why = "int0"]
              [] o[2] = 3 -> [Emit(d2, "banner", Int3Banner(e)) EXCEPT !.phase = "prompt", !.after = "advance"]
              [] o[2] \in {16, 33} ->
                   IF ~SupportedAh(o[2], ah)
                   THEN [Emit(d2, "banner", BadAhBanner(e, ah)) EXCEPT !.phase = "done", !.why = "badah"]
                   ELSE [d2 EXCEPT !.phase = "service", !.svc = <<o[2], ah>>]
              [] OTHER -> [d2 EXCEPT !.phase = "done", !.why = "error", !.outfree = TRUE]

\* the service phase: consume a stdin line if the service reads one, apply it, go on
RunService(d) ==
  LET n == d.svc[1]  ah == d.svc[2]
      reads == ReadsStdin(n, ah)
      line == IF reads /\ d.stdin # << >> THEN d.stdin[1].bytes ELSE << >>
      \* a line that is not valid UTF-8 cannot be read: it is consumed, the failure is reported and the service does nothing
      unreadable == reads /\ d.stdin # << >> /\ d.stdin[1].cls = "unreadable"
      r == IF unreadable THEN [m |-> d.m, out |-> MsgStdinError \o <<NL>>, freemem |-> {}] ELSE Service(d.m, n, ah, line)
  IN [Emit(d, "charout", r.out) EXCEPT !.m = r.m, !.phase = "fetch", !.idx = @ + 1,
                            !.stdin = IF reads /\ d.stdin # << >> THEN Tail(@) ELSE @,
                            !.charout = @ \/ r.out # << >>, !.freemem = r.freemem]

\* one command at the prompt.  c = script entry [cls, what, bytes]; cls = "eof" at end of input
PromptCmd(d, c) ==
  LET d1 == Emit(d, "prompt", MsgPrompt) IN
  IF c.cls = "eof" THEN [Emit(d1, "prompt", MsgExiting \o <<NL>>) EXCEPT !.phase = "done", !.why = "quit"]
  ELSE CASE c.cls = "next"    -> IF d.after = "advance" THEN [d1 EXCEPT !.phase = "fetch", !.idx = @ + 1, !.prompted = FALSE]
                                 ELSE [d1 EXCEPT !.phase = "invoke"]
         [] c.cls = "quit"    -> [Emit(d1, "prompt", MsgExiting \o <<NL>>) EXCEPT !.phase = "done", !.why = "quit"]
         [] c.cls = "print"   -> LET p == PrintOut(d.m, c.what) IN
                                 IF p.ok THEN Emit(d1, "promptprint", p.out) ELSE Emit(d1, "prompt", MsgInvalidInput \o <<NL>>)
         \* (any other line, also one that was meant for an input service: not a command)
         [] c.cls \notin {"next", "quit", "print", "unreadable"} -> Emit(d1, "prompt", MsgInvalidInput \o <<NL>>)
         \* a line that is not valid UTF-8: reported, then the run goes on as after `next`
         [] c.cls = "unreadable" ->
              LET d2 == Emit(d1, "prompt", MsgStdinError \o <<NL>>) IN
              IF d.after = "advance" THEN [d2 EXCEPT !.phase = "fetch", !.idx = @ + 1, !.prompted = FALSE]
              ELSE [d2 EXCEPT !.phase = "invoke"]

Boot(P, C, image) ==
  [m |-> BootMachine(image), idx |-> (IF "start" \in DOMAIN C.labels THEN C.labels["start"] ELSE 0), phase |-> "fetch", out |-> << >>,
   stdin |-> P.stdin, rep |-> FALSE, after |-> "invoke", why |-> "", outfree |-> FALSE,
   svc |-> <<0, 0>>, charout |-> FALSE, freemem |-> {}, prompted |-> FALSE]

(***************************************************************************)
(* The command line (src/bin.rs).  argv = the arguments after the program  *)
(* name, each [k |-> "flag", name] or [k |-> "file", state] where state    *)
(* says what the path names: "text" (a readable text file), "missing",     *)
(* "dir" (a directory) or "binary" (a file that is not valid UTF-8).       *)
(* Outcome:                                                                *)
(*   [k |-> "usage"]            the argument parser refuses (unknown flag, *)
(*                              a second file, -i twice): non-zero status, *)
(*                              nothing on stdout, nothing runs            *)
(*   [k |-> "info"]             -h / --help / -V / --version: status 0,    *)
(*                              nothing runs                               *)
(*   [k |-> "exit1", out, ..]   a message on stdout, status 1, nothing runs*)
(*   [k |-> "run", interp]      the program in the file is run             *)
(* The position of -i / --interpreted relative to the file does not matter.*)
(***************************************************************************)
InterpFlags == {"-i", "--interpreted"}
InfoFlags == {"-h", "--help", "-V", "--version"}
Many(S) == \E x, y \in S : x # y
CmdLine(argv) ==
  LET idx == 1 .. Len(argv)
      files == {j \in idx : argv[j].k = "file"}
      iflags == {j \in idx : argv[j].k = "flag" /\ argv[j].name \in InterpFlags}
      info == {j \in idx : argv[j].k = "flag" /\ argv[j].name \in InfoFlags}
      unknown == {j \in idx : argv[j].k = "flag" /\ argv[j].name \notin InterpFlags \cup InfoFlags}
      first == CHOOSE j \in files : \A j2 \in files : j <= j2
  IN IF info # {} /\ \A j \in unknown \cup (IF Many(files) THEN files ELSE {}) \cup (IF Many(iflags) THEN iflags ELSE {}) : \E h \in info : h < j
       THEN [k |-> "info"]            \* (the argument parser stops at the first -h / -V it meets)
     ELSE IF unknown # {} \/ Many(files) \/ Many(iflags) THEN [k |-> "usage"]
     ELSE IF info # {} THEN [k |-> "info"]
     ELSE IF files = {} THEN [k |-> "exit1", out |-> MsgNoFile, exact |-> TRUE]
     ELSE CASE argv[first].state = "missing" -> [k |-> "exit1", out |-> MsgMissingFile, exact |-> TRUE]
            [] argv[first].state \in {"dir", "binary"} -> [k |-> "exit1", out |-> MsgReadError, exact |-> FALSE]
            [] OTHER -> [k |-> "run", interp |-> iflags # {}]

(***************************************************************************)
(* The driver as a transition relation                                     *)
(***************************************************************************)
ApplyRes(m, r) == [m EXCEPT !.regs = r.regs, !.flags = r.flags, !.mem = r.writes @@ m.mem, !.stack = r.stack]

\* the set of successor driver records of dd for program PP (CC compiled, LL loaded)
Successors(PP, CC, LL, dd) ==
  CASE dd.phase = "fetch" ->
         IF PromptDue(PP, CC, dd)
         THEN LET e == CC.code[dd.idx + 1]
                  withPrompt == [Emit(dd, "stepbanner", Banner(e, FlagSet(dd.m.flags, TF))) EXCEPT !.phase = "prompt", !.after = "invoke"]
              IN IF dd.rep THEN {withPrompt, [dd EXCEPT !.phase = "invoke"]} ELSE {withPrompt}
         ELSE {[dd EXCEPT !.phase = "invoke"]}
    [] dd.phase = "prompt" ->
         LET c == IF dd.stdin = << >> THEN [cls |-> "eof"] ELSE dd.stdin[1]
         IN {[PromptCmd(dd, c) EXCEPT !.stdin = IF dd.stdin = << >> THEN << >> ELSE Tail(dd.stdin)]}
    [] dd.phase = "invoke" ->
         LET ins == InsAt(CC, LL.labels, dd.idx) IN
         UNION {{Dispatch(CC, [dd EXCEPT !.phase = "fetch"], ApplyRes(dd.m, r), o) : o \in r.outs} : r \in ExecAlts(dd.m, ins, dd.idx)}
    [] dd.phase = "service" -> {RunService(dd)}
    [] OTHER -> {}

=============================================================================
