----------------------------- MODULE TraceStep -----------------------------
(***************************************************************************)
(* Trace specification at instruction grain: consumes an ndjson trace      *)
(* recorded from the real interpreter (harness `vh`) and checks that every *)
(* logged step is a step Machine!Exec allows from the logged pre-state.    *)
(*                                                                         *)
(* A mismatch does not stop validation: a verdict record is appended to    *)
(* TLC register 1 and the specification state is resynchronised to the     *)
(* logged post-state, so the rest of the trace is still examined.          *)
(* Run with -workers 1; POSTCONDITION TraceAccepted writes the verdicts.   *)
(***************************************************************************)
EXTENDS TraceCommon, Json, IOUtils

Rec == ndJsonDeserialize(IOEnv.TRACE)

VARIABLES st, l

EmptyState == [regs |-> [n \in RegNames |-> 0], flags |-> 0, mem |-> << >>, bg |-> -1, stack |-> << >>]

Verdict(v) == TLCSet(1, Append(TLCGet(1), v))

CheckStep(s, ev) ==
  LET r == Exec(s, ev.ast, ev.idx) IN
  IF \E x \in ExecAlts(s, ev.ast, ev.idx) : Matches(s, ev, x) THEN TRUE
  ELSE LET d == ExplainingDev(s, ev) IN
       Verdict([l |-> l, ev |-> "step", kind |-> IF d = "" THEN "MISMATCH" ELSE "KNOWN",
                dev |-> d, why |-> Explain(s, ev, r)])

(***************************************************************************)
(* Batch events: 256 results of one operation in a single event            *)
(***************************************************************************)
\* {"ev":"alu8","op":..,"w":8|16,"a":..,"cin":0|1,"fin":flags,"bs":[b..],"res":[..],"fl":[..]}
\*   for k: result and flag word of  op a, bs[k]  executed with incoming flags fin (CF = cin)
FB(ev) == {ev.fb[j] : j \in DOMAIN ev.fb}   \* positions whose frame condition broke

AluBad(ev) ==
  FB(ev) \cup
  {k \in DOMAIN ev.bs :
     LET r == BinOrLogic(ev.op, ev.w, ev.a, ev.bs[k], ev.cin)
         ef == NewFlags(ev.fin, r.def, r.fl)
     IN ~(ev.res[k] = r.res /\ (ev.fl[k] & (65535 - r.undef)) = (ef & (65535 - r.undef)))}

AluKnown(ev, k) ==
  {d \in KnownDeviations :
     DevAluApplies(d, ev.op, ev.w) /\
     LET r == DevBinOrLogic(d, ev.op, ev.w, ev.a, ev.bs[k], ev.cin, ev.fin)
         ef == NewFlags(ev.fin, r.def, r.fl)
     IN ev.res[k] = r.res /\ (ev.fl[k] & (65535 - r.undef)) = (ef & (65535 - r.undef))}

\* {"ev":"shift","op":..,"w":..,"v":..,"cin":..,"fin":..,"ns":[counts],"res":[..],"fl":[..],"panic":[0/1..]}
ShiftBad(ev) ==
  FB(ev) \cup
  {k \in DOMAIN ev.ns :
     LET r == Shift(ev.op, ev.w, ev.v, ev.cin, ev.ns[k])
         ef == NewFlags(ev.fin, r.def, r.fl)
     IN ~(ev.panic[k] = 0 /\ ev.res[k] = r.res /\
          (ev.fl[k] & (65535 - r.undef)) = (ef & (65535 - r.undef)))}

\* {"ev":"un8","op":..,"w":..,"fin":..,"cin":..,"as":[..],"res":[..],"fl":[..]}  inc/dec/neg/not
UnBad(ev) ==
  FB(ev) \cup
  {k \in DOMAIN ev.as :
     LET r == UnOp(ev.op, ev.w, ev.as[k])
         ef == NewFlags(ev.fin, r.def, r.fl)
     IN ~(ev.res[k] = r.res /\ ev.fl[k] = ef)}
UnKnown(ev, k) ==
  {d \in KnownDeviations :
     DevUnApplies(d, ev.op, ev.w) /\
     LET r == DevUnOp(d, ev.op, ev.w, ev.as[k], ev.fin)
         ef == NewFlags(ev.fin, r.def, r.fl)
     IN ev.res[k] = r.res /\ ev.fl[k] = ef}

\* {"ev":"muldiv","op":..,"w":..,"ax":..,"dx":..,"fin":..,"vs":[..],"oax":[..],"odx":[..],"fl":[..],"out":[0 NEXT /1 INT0 /2 PANIC]}
MdOk(ev, r, k) ==
  LET undef == IF r.ok /\ ~(r.qmin /\ AcceptMinQuotientTrap) THEN r.undef ELSE Status
      ef == NewFlags(ev.fin, r.def, r.fl)
      flok == (ev.fl[k] & (65535 - undef)) = (ef & (65535 - undef))
      good == ev.out[k] = 0 /\ ev.oax[k] = r.ax /\ ev.odx[k] = r.dx /\ flok
      err  == ev.out[k] = 1 /\ (ev.fl[k] & (65535 - Status)) = (ev.fin & (65535 - Status))
  IN IF ~r.ok THEN err ELSE IF r.qmin /\ AcceptMinQuotientTrap THEN good \/ err ELSE good
MulDivBad(ev) ==
  FB(ev) \cup
  {k \in DOMAIN ev.vs : ~MdOk(ev, MulDiv(ev.op, ev.w, ev.ax, ev.dx, ev.vs[k]), k)}
MulDivKnown(ev, k) ==
  {d \in KnownDeviations :
     DevMdApplies(d, ev.op, ev.w) /\ MdOk(ev, DevMulDiv(d, ev.op, ev.w, ev.ax, ev.dx, ev.vs[k]), k)}

\* {"ev":"adjust","op":..,"cf":..,"af":..,"fin":..,"dx":..,"axs":[..],"oax":[..],"odx":[..],"fl":[..]}
AdjBad(ev) ==
  FB(ev) \cup
  {k \in DOMAIN ev.axs :
     ~ \E r \in AdjustAlts(ev.op, ev.axs[k], ev.dx, ev.fin) :
         LET ef == NewFlags(ev.fin, r.def, r.fl)
         IN ev.oax[k] = r.ax /\ ev.odx[k] = r.dx /\
            (ev.fl[k] & (65535 - r.undef)) = (ef & (65535 - r.undef))}

\* {"ev":"jcc","mn":..(as emitted source spelling),"cx":..,"fs":[flag words],"taken":[0/1/2..],"same":[0/1]}
\*  taken[k]: 0 = NEXT, 1 = JMP target, 2 = anything else; same[k] = 1 iff no register/flag/memory changed
\*  (for the LOOP family: iff only CX changed, to cx-1)
JccBad(ev) ==
  {k \in DOMAIN ev.fs :
     LET mn == Canon(ev.mn)
         exp == IF IsLoop(mn) THEN LoopTaken(mn, (ev.cx - 1) % 65536, ev.fs[k])
                ELSE IF mn = "jcxz" THEN ev.cx = 0 ELSE Cond(mn, ev.fs[k])
     IN ~(ev.taken[k] = (IF exp THEN 1 ELSE 0) /\ ev.same[k] = 1)}
JccKnown(ev, k) ==
  {d \in KnownDeviations :
     DevJccApplies(d, Canon(ev.mn)) /\ ev.same[k] = 1 /\
     ev.taken[k] = (IF DevCond(d, Canon(ev.mn), ev.fs[k]) THEN 1 ELSE 0)}

\* {"ev":"loopcx","mn":..,"zf":0/1,"f":flags,"cxs":[..],"taken":[..],"same":[..]}
LoopBad(ev) ==
  {k \in DOMAIN ev.cxs :
     LET mn == Canon(ev.mn)
         exp == IF IsLoop(mn) THEN LoopTaken(mn, (ev.cxs[k] - 1) % 65536, ev.f)
                ELSE ev.cxs[k] = 0
     IN ~(ev.taken[k] = (IF exp THEN 1 ELSE 0) /\ ev.same[k] = 1)}

BatchVerdict(kind, bad, known(_)) ==
  LET unknown == {k \in bad : known(k) = {}}
      kn == bad \ unknown
  IN /\ IF unknown = {} THEN TRUE
        ELSE Verdict([l |-> l, ev |-> kind, kind |-> "MISMATCH", dev |-> "", why |-> unknown])
     /\ IF kn = {} THEN TRUE
        ELSE Verdict([l |-> l, ev |-> kind, kind |-> "KNOWN",
                      dev |-> (CHOOSE d \in UNION {known(k) : k \in kn} : TRUE), why |-> kn])

NoKnown(k) == {}

(***************************************************************************)
(* The trace specification                                                 *)
(***************************************************************************)
\* events may name the machine they ran on (C19: several machines, one parser object)
VmOf(ev) == IF "vm" \in DOMAIN ev THEN ev.vm ELSE 0
Vms == 0 .. 3

TraceInit == st = [v \in Vms |-> EmptyState] /\ l = 1 /\ TLCSet(1, << >>)

TraceNext ==
  /\ l <= Len(Rec)
  /\ l' = l + 1
  /\ LET ev == Rec[l] IN
     CASE ev.ev = "reset" ->
            st' = [st EXCEPT ![VmOf(ev)] = [regs |-> ev.regs, flags |-> ev.flags, mem |-> MkMem(ev.mem),
                                             bg |-> ev.bg, stack |-> ev.stack]]
       [] ev.ev = "step" ->
            /\ CheckStep(st[VmOf(ev)], ev)
            /\ st' = [st EXCEPT ![VmOf(ev)] = [regs |-> ev.regs, flags |-> ev.flags,
                                                mem |-> MkMem(ev.memw) @@ st[VmOf(ev)].mem,
                                                bg |-> st[VmOf(ev)].bg, stack |-> ev.stack]]
       \* a freshly created machine (C19)
       [] ev.ev = "newvm" ->
            /\ (IF ev.regs = FreshRegs /\ ev.flags = FreshFlags /\ ev.nonzero = 0 THEN TRUE
                ELSE Verdict([l |-> l, ev |-> "newvm", kind |-> "MISMATCH", dev |-> "", why |-> <<ev.regs, ev.flags, ev.nonzero>>]))
            /\ UNCHANGED st
       \* the same program and input run several times in separate processes (C19)
       [] ev.ev = "repeat" ->
            /\ (IF ev.identical THEN TRUE
                ELSE Verdict([l |-> l, ev |-> "repeat", kind |-> "MISMATCH", dev |-> "", why |-> <<ev.runs, ev.what>>]))
            /\ UNCHANGED st
       [] ev.ev = "alu8" ->
            /\ BatchVerdict("alu8", AluBad(ev), LAMBDA k : AluKnown(ev, k)) /\ UNCHANGED st
       [] ev.ev = "shift" ->
            /\ BatchVerdict("shift", ShiftBad(ev), NoKnown) /\ UNCHANGED st
       [] ev.ev = "un8" ->
            /\ BatchVerdict("un8", UnBad(ev), LAMBDA k : UnKnown(ev, k)) /\ UNCHANGED st
       [] ev.ev = "muldiv" ->
            /\ BatchVerdict("muldiv", MulDivBad(ev), LAMBDA k : MulDivKnown(ev, k)) /\ UNCHANGED st
       [] ev.ev = "adjust" ->
            /\ BatchVerdict("adjust", AdjBad(ev), NoKnown) /\ UNCHANGED st
       [] ev.ev = "jcc" ->
            /\ BatchVerdict("jcc", JccBad(ev), LAMBDA k : JccKnown(ev, k)) /\ UNCHANGED st
       [] ev.ev = "loopcx" ->
            /\ BatchVerdict("loopcx", LoopBad(ev), NoKnown) /\ UNCHANGED st
       \* the real assembler refused a form the generator rendered from syntax.md
       [] ev.ev = "asmfail" ->
            /\ Verdict([l |-> l, ev |-> "asmfail", kind |-> "ASMFAIL", dev |-> "", why |-> ev.err])
            /\ UNCHANGED st
       \* a line the assembler emitted was refused by the parser it is destined for (C10)
       [] ev.ev = "downstream" ->
            /\ Verdict([l |-> l, ev |-> "downstream", kind |-> "MISMATCH", dev |-> "", why |-> <<ev.kind, ev.err>>])
            /\ UNCHANGED st
       \* two spellings of one syntax tree must emit the same instruction list (C11)
       [] ev.ev = "spelling" ->
            /\ (IF ev.same THEN TRUE
                ELSE Verdict([l |-> l, ev |-> "spelling", kind |-> "MISMATCH", dev |-> "", why |-> ev.lists]))
            /\ UNCHANGED st
       \* a macro library, a use site and the reference expansion computed by Macro!Expand (C13):
       \* an expansion error must be refused; otherwise the macro program and the hand-expanded program are
       \* accepted or refused together and, when accepted, emit the same instruction list
       [] ev.ev = "macro" ->
            /\ (IF ~ev.aborted /\ ((ev.err # "" /\ ~ev.macro_ok) \/ (ev.err = "" /\ ev.macro_ok = ev.ref_ok /\ (ev.macro_ok => ev.same))) THEN TRUE
                ELSE Verdict([l |-> l, ev |-> "macro", kind |-> "MISMATCH", dev |-> "",
                              why |-> <<ev.err, ev.macro_ok, ev.ref_ok, ev.same, ev.macro_code, ev.ref_code, ev.diag>>]))
            /\ UNCHANGED st
       \* a chain of nested macro uses must expand (no abort, no hang) to what the innermost body says; the only
       \* other admitted outcome is the named deviation (refused with the nesting diagnostic beyond MaxNesting)
       [] ev.ev = "chain" ->
            /\ (IF ev.status = 0 /\ ~ev.timeout /\ ev.ok /\ ev.same THEN TRUE
                ELSE IF \E d \in KnownDeviations : DevChainApplies(d, ev.depth, ev.status, ev.timeout, ev.ok, ev.deep)
                THEN Verdict([l |-> l, ev |-> "chain", kind |-> "KNOWN", dev |-> "Dev_MacroNestingLimit", why |-> <<ev.depth, ev.status>>])
                ELSE Verdict([l |-> l, ev |-> "chain", kind |-> "MISMATCH", dev |-> "", why |-> <<ev.depth, ev.status, ev.timeout, ev.err>>]))
            /\ UNCHANGED st
       \* all word pairs of one operation against the byte tables composed by the ripple lemma (C01)
       [] ev.ev = "sweep16" ->
            /\ (IF ev.bad = << >> THEN TRUE
                ELSE Verdict([l |-> l, ev |-> "sweep16", kind |-> "MISMATCH", dev |-> "", why |-> <<ev.op, ev.cin, ev.bad>>]))
            /\ UNCHANGED st
       \* a REP line still answered REPEAT after CX + 3 invocations
       [] ev.ev = "nonterminating" ->
            /\ Verdict([l |-> l, ev |-> "nonterminating", kind |-> "MISMATCH", dev |-> "", why |-> ev.invocations])
            /\ UNCHANGED st
       [] OTHER -> UNCHANGED st

TraceSpec == TraceInit /\ [][TraceNext]_<<st, l>>

\* every line consumed (one state per line plus the initial state); verdicts written out
TraceAccepted ==
  /\ ndJsonSerialize(IOEnv.OUT, TLCGet(1))
  /\ IF TLCGet("stats").diameter = Len(Rec) + 1 THEN TRUE
     ELSE Print(<<"TRACE NOT CONSUMED", TLCGet("stats").diameter, Len(Rec)>>, FALSE)

=============================================================================
