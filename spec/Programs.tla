------------------------------ MODULE Programs ------------------------------
(***************************************************************************)
(* Program-building helpers shared by the bounded models: the block        *)
(* alphabet of C08, the small programs of C20.  Constant level only.       *)
(***************************************************************************)
EXTENDS Driver, Asm

I(ast, n) == [k |-> "ins", ast |-> ast, line |-> n, text |-> "", textb |-> << >>]
Lab(n) == [k |-> "label", name |-> n]
Ctl(o) == [cls |-> "ctl", op |-> o]
IncR(r) == [cls |-> "unarith", op |-> "inc", w |-> 16, dst |-> [k |-> "reg16", r |-> r]]
Jmp(mn, l) == [cls |-> "jcc", mn |-> mn, label |-> l]
Call(p) == [cls |-> "call", proc |-> p]
MovCx(v) == [cls |-> "mov", w |-> 16, dst |-> [k |-> "reg16", r |-> "cx"], src |-> [k |-> "imm", v |-> v]]
Proc(n, body) == [k |-> "proc", name |-> n, body |-> body, endline |-> 0, endtext |-> "", endtextb |-> << >>]
PrintFlagsIns == [cls |-> "print", what |-> [k |-> "flags"]]

Blocks ==
  [ inc   |-> <<I(IncR("ax"), 0)>>,
    stc   |-> <<I(Ctl("stc"), 0)>>,
    l1    |-> <<Lab("la")>>,
    l2    |-> <<Lab("lb")>>,
    jmp1  |-> <<I(Jmp("jmp", "la"), 0)>>,
    jc2   |-> <<I(Jmp("jc", "lb"), 0)>>,
    jnc1  |-> <<I(Jmp("jnc", "la"), 0)>>,
    loop2 |-> <<I(Jmp("loop", "lb"), 0)>>,
    cx2   |-> <<I(MovCx(2), 0)>>,
    p1    |-> <<Proc("pa", <<I(IncR("bx"), 0)>>)>>,
    p2    |-> <<Proc("pb", <<I(Call("pa"), 0), I(Jmp("jc", "lr"), 0), I([cls |-> "ret"], 0), Lab("lr"), I(IncR("dx"), 0)>>)>>,
    \* a procedure that calls itself (CX counts the levels; call3 sets CX before calling it)
    p3    |-> <<Proc("pc", <<I(IncR("si"), 0), I(Jmp("loop", "lrec"), 0), I([cls |-> "ret"], 0), Lab("lrec"), I(Call("pc"), 0)>>)>>,
    call3 |-> <<I(MovCx(2), 0), I(Call("pc"), 0)>>,
    call1 |-> <<I(Call("pa"), 0)>>,
    call2 |-> <<I(Call("pb"), 0)>>,
    hlt   |-> <<I(Ctl("hlt"), 0)>>,
    prt   |-> <<I(PrintFlagsIns, 0)>> ]

BlockNames == DOMAIN Blocks

RECURSIVE Concat(_)
Concat(ss) == IF ss = << >> THEN << >> ELSE Head(ss) \o Concat(Tail(ss))

\* items of the program made of blocks bs with `start:` before block number s (s = Len+1: at the end)
ItemsOf(bs, s) ==
  Concat([j \in 1 .. Len(bs) + 1 |->
            (IF j = s THEN <<Lab("start")>> ELSE << >>) \o (IF j <= Len(bs) THEN Blocks[bs[j]] ELSE << >>)])

\* static validity (what the assembler demands): labels defined exactly once when used, procedures
\* defined before the calls that use them, pb needs pa
Count(bs, n) == Cardinality({j \in 1 .. Len(bs) : bs[j] = n})
FirstIdx(bs, n) == IF \E j \in 1 .. Len(bs) : bs[j] = n THEN CHOOSE j \in 1 .. Len(bs) : bs[j] = n /\ \A i \in 1 .. j - 1 : bs[i] # n ELSE 0
Valid(bs) ==
  /\ Count(bs, "l1") <= 1 /\ Count(bs, "l2") <= 1 /\ Count(bs, "p1") <= 1 /\ Count(bs, "p2") <= 1 /\ Count(bs, "p3") <= 1
  /\ \A j \in 1 .. Len(bs) : bs[j] = "call3" => FirstIdx(bs, "p3") # 0 /\ FirstIdx(bs, "p3") < j
  /\ ((\E j \in 1 .. Len(bs) : bs[j] \in {"jmp1", "jnc1"}) => Count(bs, "l1") = 1)
  /\ ((\E j \in 1 .. Len(bs) : bs[j] \in {"jc2", "loop2"}) => Count(bs, "l2") = 1)
  /\ \A j \in 1 .. Len(bs) : bs[j] = "call1" => FirstIdx(bs, "p1") # 0 /\ FirstIdx(bs, "p1") < j
  /\ \A j \in 1 .. Len(bs) : bs[j] = "call2" => FirstIdx(bs, "p2") # 0 /\ FirstIdx(bs, "p2") < j
  /\ (Count(bs, "p2") = 1 => FirstIdx(bs, "p1") # 0 /\ FirstIdx(bs, "p1") < FirstIdx(bs, "p2"))

MkProgram(items, interp, stdin) == [data |-> << >>, items |-> items, interp |-> interp, stdin |-> stdin]

SmallPrograms ==
  { ItemsOf(<<"stc", "inc">>, 1),
    ItemsOf(<<"p1", "cx2", "l2", "call1", "loop2">>, 2),
    ItemsOf(<<"inc", "prt", "hlt", "inc">>, 1),
    <<Lab("start"), I([cls |-> "int", n |-> 3], 0), I(IncR("ax"), 0), I([cls |-> "int", n |-> 3], 0)>>,
    <<Lab("start"), I([cls |-> "mov", w |-> 16, dst |-> [k |-> "reg16", r |-> "ax"], src |-> [k |-> "imm", v |-> 256]], 0),
      I([cls |-> "push", src |-> [k |-> "reg16", r |-> "ax"]], 0), I([cls |-> "flagsx", op |-> "popf"], 0), I(IncR("bx"), 0), I(Ctl("stc"), 0)>>,
    <<Lab("start"), I(MovCx(2), 0), I([cls |-> "string", op |-> "stos", w |-> 8, rep |-> "rep"], 0), I(IncR("bx"), 0)>> }

\* long enough all-next scripts make the stepped run complete
AllNext(n) == [j \in 1 .. n |-> [cls |-> "next", raw |-> "n\n", bytes |-> <<110, 10>>]]
=============================================================================
