SPECIFICATION SpecC07
CONSTANT MaxDepth = 0
CONSTANT MaxCX = 64
CONSTANT Gen = FALSE
INVARIANT C07Progress
INVARIANT C07Done
INVARIANT C07Meaning
PROPERTY C07Terminates
CHECK_DEADLOCK FALSE
