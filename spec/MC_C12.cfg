SPECIFICATION SpecC12
CONSTANT MaxBlocks = 3
CONSTANT MaxScript = 0
CONSTANT MaxSteps = 0
CONSTANT Gen = FALSE
INVARIANT C12Layout
CHECK_DEADLOCK FALSE
