------------------------------- MODULE MC_Asm -------------------------------
(***************************************************************************)
(* The finite set of instruction shapes of the source grammar (syntax.md): *)
(* every mnemonic spelling x every operand-kind alternative of its         *)
(* production x every alternative of the memory-operand production.        *)
(*   C10  each shape is accepted by the static semantics (Asm!InsOK) and   *)
(*        its meaning is an enabled, total Machine action (ResultOK)       *)
(*   C11  the meaning of a shape does not depend on how it is spelled: the *)
(*        spelling lives only in the fields mn / repmn / raw, which        *)
(*        Machine!Exec never reads                                         *)
(* With Gen = TRUE every shape is printed as a REPLAY line; the harness    *)
(* renders it (both cases, several radices and separators), assembles it   *)
(* with the real Preprocessor, feeds every emitted line to the downstream  *)
(* parser it is destined for and records the step for TraceStep.tla.       *)
(***************************************************************************)
EXTENDS Machine, Asm, Json

CONSTANT Gen
VARIABLES shape
vars == <<shape>>

R8(r)  == [k |-> "reg8", r |-> r]
R16(r) == [k |-> "reg16", r |-> r]
SR(r)  == [k |-> "sreg", r |-> r]
Imm(x) == [k |-> "imm", v |-> x % 65536, raw |-> x]
Mem(seg, base, index, disp) == [k |-> "mem", seg |-> seg, base |-> base, index |-> index, disp |-> disp]
Lbl == [k |-> "label", name |-> "vdat", off |-> 4]
Off == [k |-> "offset", name |-> "vdat", v |-> 4]

\* a register form written without its displacement (`[bx]`, `[bp,si]`): a different alternative of the grammar
\* with the same meaning as displacement 0 (nd: "no displacement written")
MemNd(seg, base, index) == [k |-> "mem", seg |-> seg, base |-> base, index |-> index, disp |-> 0, nd |-> TRUE]
\* every alternative of memory_addr, with and without a segment override
MemForms ==
  UNION {{ Mem(sg, "", "", 4660), Mem(sg, "bx", "", 0), Mem(sg, "", "si", 0), Mem(sg, "bp", "", -2),
           Mem(sg, "", "di", 7), Mem(sg, "bx", "si", 0), Mem(sg, "bp", "di", -300),
           MemNd(sg, "bx", ""), MemNd(sg, "", "di"), MemNd(sg, "bp", "si") } : sg \in {"", "es", "cs"}}
Regs(w) == IF w = 8 THEN {R8("al"), R8("bh")} ELSE {R16("ax"), R16("bp"), R16("di")}
MemLike == MemForms \cup {Lbl}
ImmsS(w) == IF w = 8 THEN {Imm(5), Imm(-3), Imm(255), Imm(-128), Imm(200), Off} ELSE {Imm(5), Imm(-3), Imm(65535), Imm(-32768), Imm(43981), Off}
ImmsU(w) == IF w = 8 THEN {Imm(5), Imm(255), Off} ELSE {Imm(5), Imm(65535), Off}

Pairs(w, signed) ==
     {<<d, s>> : d \in Regs(w), s \in Regs(w)}
  \cup {<<d, s>> : d \in {CHOOSE r \in Regs(w) : TRUE}, s \in MemLike}
  \cup {<<d, s>> : d \in MemLike, s \in {CHOOSE r \in Regs(w) : TRUE}}
  \cup {<<d, s>> : d \in {CHOOSE r \in Regs(w) : TRUE}, s \in (IF signed THEN ImmsS(w) ELSE ImmsU(w))}
  \cup {<<d, s>> : d \in MemLike, s \in (IF signed THEN ImmsS(w) ELSE ImmsU(w))}

JccSpellings == {"jmp", "ja", "jnbe", "jae", "jnb", "jb", "jnae", "jbe", "jna", "jc", "je", "jz", "jg", "jnle", "jge", "jnl",
                 "jl", "jnge", "jle", "jng", "jnc", "jne", "jnz", "jno", "jnp", "jpo", "jns", "jo", "jp", "jpe", "js",
                 "jcxz", "loop", "loope", "loopz", "loopne", "loopnz"}
ShiftSpellings == {<<"sal", "sal">>, <<"sal", "shl">>, <<"shr", "shr">>, <<"sar", "sar">>, <<"rol", "rol">>, <<"ror", "ror">>,
                   <<"rcl", "rcl">>, <<"rcr", "rcr">>}
StringSpellings ==
  {<<o, "", "">> : o \in {"movs", "lods", "stos", "cmps", "scas"}}
  \cup {<<o, "rep", "rep">> : o \in {"movs", "lods", "stos"}}
  \cup {<<o, r[1], r[2]>> : o \in {"cmps", "scas"}, r \in {<<"repz", "repe">>, <<"repz", "repz">>, <<"repnz", "repne">>, <<"repnz", "repnz">>}}

Shapes ==
     {[cls |-> "binarith", op |-> o, w |-> w, dst |-> p[1], src |-> p[2]] : o \in {"add", "adc", "sub", "sbb", "cmp"}, w \in {8, 16}, p \in Pairs(8, TRUE) \cup Pairs(16, TRUE)}
  \cup {[cls |-> "logic", op |-> o, w |-> w, dst |-> p[1], src |-> p[2]] : o \in {"and", "or", "xor", "test"}, w \in {8, 16}, p \in Pairs(8, FALSE) \cup Pairs(16, FALSE)}
  \cup {[cls |-> "mov", w |-> w, dst |-> p[1], src |-> p[2]] : w \in {8, 16}, p \in Pairs(8, TRUE) \cup Pairs(16, TRUE)}
  \cup {[cls |-> "mov", w |-> 16, dst |-> SR(s), src |-> x] : s \in Sregs, x \in Regs(16) \cup MemLike}
  \cup {[cls |-> "mov", w |-> 16, dst |-> x, src |-> SR(s)] : s \in Sregs, x \in Regs(16) \cup MemLike}
  \cup {[cls |-> "xchg", w |-> w, a |-> x, b |-> y] : w \in {8, 16}, x \in Regs(8) \cup Regs(16) \cup MemLike, y \in Regs(8) \cup Regs(16) \cup MemLike}
  \cup {[cls |-> "not", w |-> w, dst |-> x] : w \in {8, 16}, x \in Regs(8) \cup Regs(16) \cup MemLike}
  \cup {[cls |-> "unarith", op |-> o, w |-> w, dst |-> x] : o \in {"inc", "dec", "neg", "mul", "imul", "div", "idiv"}, w \in {8, 16}, x \in Regs(8) \cup Regs(16) \cup MemLike}
  \cup {[cls |-> "shift", op |-> m[1], mn |-> m[2], w |-> w, dst |-> x, cnt |-> c] : m \in ShiftSpellings, w \in {8, 16},
          x \in Regs(8) \cup Regs(16) \cup MemLike, c \in {[k |-> "cl"], [k |-> "imm", v |-> 3], [k |-> "imm", v |-> 0], [k |-> "imm", v |-> 255]}}
  \cup {[cls |-> "adjust", op |-> o] : o \in {"aaa", "aas", "daa", "das", "aam", "aad", "cbw", "cwd"}}
  \cup {[cls |-> "push", src |-> x] : x \in {R16(r) : r \in Reg16s} \cup {SR(s) : s \in Sregs} \cup MemLike}
  \cup {[cls |-> "pop", dst |-> x] : x \in {R16(r) : r \in Reg16s} \cup {SR(s) : s \in Sregs} \cup MemLike}
  \cup {[cls |-> "lea", dst |-> R16("si"), src |-> x] : x \in MemLike}
  \cup {[cls |-> "flagsx", op |-> o] : o \in {"lahf", "sahf", "pushf", "popf"}}
  \cup {[cls |-> "xlat"]}
  \cup {[cls |-> "ctl", op |-> o] : o \in {"stc", "clc", "cmc", "std", "cld", "sti", "cli", "hlt", "nop"}}
  \cup {[cls |-> "jcc", mn |-> m, label |-> "vtgt", target |-> 0] : m \in JccSpellings}
  \cup {[cls |-> "call", proc |-> "vprc", target |-> 0], [cls |-> "ret"]}
  \cup {[cls |-> "int", n |-> n] : n \in {3, 16, 33}}
  \cup {[cls |-> "string", op |-> s[1], w |-> w, rep |-> s[2], repmn |-> s[3]] : s \in StringSpellings, w \in {8, 16}}
  \* every register name once as destination and once as source (both cases are rendered by the harness)
  \cup {[cls |-> "mov", w |-> 8, dst |-> R8(r), src |-> Imm(5)] : r \in Reg8s}
  \cup {[cls |-> "mov", w |-> 16, dst |-> R16(r), src |-> Imm(300)] : r \in Reg16s}
  \cup {[cls |-> "mov", w |-> 8, dst |-> R8("dl"), src |-> R8(r)] : r \in Reg8s}
  \cup {[cls |-> "mov", w |-> 16, dst |-> R16("dx"), src |-> R16(r)] : r \in Reg16s}
  \cup {[cls |-> "xchg", w |-> 16, a |-> R16(r), b |-> R16("si")] : r \in Reg16s}
  \cup {[cls |-> "print", what |-> wt] : wt \in {[k |-> "flags"], [k |-> "reg"], [k |-> "range", a |-> 3, b |-> 20],
                                                 [k |-> "span", a |-> 16, n |-> 5], [k |-> "dsspan", n |-> 17],
                                                 \* constants that need more than 16 bits (seeded change C11-q: binary constants lost bits 16..19)
                                                 [k |-> "range", a |-> 65536, b |-> 65551], [k |-> "range", a |-> 1048575, b |-> 1048575],
                                                 [k |-> "span", a |-> 983040, n |-> 65541], [k |-> "dsspan", n |-> 1048575],
                                                 [k |-> "span", a |-> 699050, n |-> 349525]}}

Env == [data |-> {"vdat"}, offsets |-> ("vdat" :> 4), code |-> {"vtgt"}, procs |-> {"vprc"}]

\* the shapes the grammar accepts (width-consistent ones among the candidates above)
Accepted == {s \in Shapes : InsOK(s, Env)}

Init == shape \in Accepted
Next == UNCHANGED shape
Spec == Init /\ [][Next]_vars

S0 == [regs |-> [n \in RegNames |-> CASE n = "ax" -> 4660 [] n = "bx" -> 256 [] n = "cx" -> 3 [] n = "ds" -> 16 [] n = "es" -> 32
                                        [] n = "ss" -> 48 [] n = "sp" -> 512 [] OTHER -> 7],
       flags |-> 2, mem |-> << >>, bg |-> 5, stack |-> <<9>>]

\* C10 at the level of the specification: an accepted shape is an enabled Machine action
C10Enabled ==
  LET r == Exec(S0, shape, 3) IN
  /\ r.outs # {} /\ \A o \in r.outs : o[1] \in Outcomes /\ (o[1] = "ERR" => FALSE)
  /\ RegsOK(r.regs) /\ r.flags \in Word /\ WritesInRange(r)

\* C11 at the level of the specification: respelling (mn, repmn, raw) never changes the meaning
Respell(s) ==
  LET a == IF "mn" \in DOMAIN s /\ s.cls = "shift" THEN [s EXCEPT !.mn = "x"] ELSE s
      b == IF "repmn" \in DOMAIN a THEN [a EXCEPT !.repmn = "x"] ELSE a
      fix(o) == IF o.k = "imm" THEN [o EXCEPT !.raw = o.v] ELSE o
      c == IF "src" \in DOMAIN b THEN [b EXCEPT !.src = fix(b.src)] ELSE b
  IN c
C11SpellingFree == Exec(S0, shape, 3) = Exec(S0, Respell(shape), 3)

\* vacuity guards on the shape set itself
ShapeCounts ==
  /\ Cardinality(Accepted) > 2000
  /\ \A c \in {"binarith", "logic", "mov", "xchg", "not", "unarith", "shift", "adjust", "push", "pop", "lea", "flagsx", "xlat",
               "ctl", "jcc", "call", "ret", "int", "string", "print"} : \E s \in Accepted : s.cls = c
  /\ Cardinality(Shapes \ Accepted) > 100          \* the candidates include ill-typed ones that InsOK filters out

Emit == Gen => PrintT(<<"REPLAY", ToJson(shape)>>)

(***************************************************************************)
(* C14: every constant position of every production, one step outside its  *)
(* range (and far outside).  Each variant must be ill-formed.              *)
(***************************************************************************)
OutOfRange(o, w, signed) ==
  IF o.k # "imm" THEN {}
  ELSE LET hi == IF w = 8 THEN 255 ELSE 65535
           lo == IF signed THEN (IF w = 8 THEN -128 ELSE -32768) ELSE 0
       IN {Imm(hi + 1), Imm(lo - 1)} \cup (IF w = 8 THEN {Imm(300), Imm(65535), Imm(-200)} ELSE {Imm(70000)})

BadVariants(s) ==
  CASE s.cls \in {"binarith", "mov"} /\ s.src.k = "imm" -> {[s EXCEPT !.src = x] : x \in OutOfRange(s.src, s.w, TRUE)}
    [] s.cls = "logic" /\ s.src.k = "imm" -> {[s EXCEPT !.src = x] : x \in OutOfRange(s.src, s.w, FALSE)}
    [] s.cls = "shift" /\ s.cnt.k = "imm" -> {[s EXCEPT !.cnt = [k |-> "imm", v |-> 256]], [s EXCEPT !.cnt = [k |-> "imm", v |-> 65535]]}
    \* the count in a register other than CL (for every destination form: each has its own production)
    [] s.cls = "shift" /\ s.cnt.k = "cl" -> {[s EXCEPT !.cnt = [k |-> "reg", r |-> x]] : x \in {"dl", "ch", "al", "cx"}}
    [] s.cls = "int" -> {[s EXCEPT !.n = 256], [s EXCEPT !.n = 5]}
    [] OTHER -> {}
\* displacement / direct address out of range in any memory operand
\* (a form written without displacement has none to be out of range)
BadMem(o) == IF o.k # "mem" \/ "nd" \in DOMAIN o THEN {} ELSE IF o.base = "" /\ o.index = "" THEN {[o EXCEPT !.disp = 65536], [o EXCEPT !.disp = -1]}
                                        ELSE {[o EXCEPT !.disp = 65536], [o EXCEPT !.disp = -32769]}
BadMemVariants(s) ==
  (IF "dst" \in DOMAIN s THEN {[s EXCEPT !.dst = x] : x \in BadMem(s.dst)} ELSE {})
  \cup (IF "src" \in DOMAIN s THEN {[s EXCEPT !.src = x] : x \in BadMem(s.src)} ELSE {})

\* the candidates of the shape set that the operand-kind tables refuse: mixed widths, two memory operands, ...
\* The width field of a shape is written in the source only through the byte/word keyword of a memory
\* operand.  A candidate without such an operand whose registers agree on another width reads as a
\* different, valid instruction: it is not an ill-typed *text* and is left out.
OperandFields(s) == {f \in {"dst", "src", "a", "b"} : f \in DOMAIN s}
RegWidth(o) == IF o.k = "reg8" THEN 8 ELSE IF o.k \in {"reg16", "sreg"} THEN 16 ELSE 0
Retyped(s) ==
  IF "w" \notin DOMAIN s \/ \E f \in OperandFields(s) : s[f].k \in {"mem", "label"} THEN s
  ELSE LET ws == {RegWidth(s[f]) : f \in OperandFields(s)} \ {0}
       IN IF Cardinality(ws) = 1 THEN [s EXCEPT !.w = CHOOSE x \in ws : TRUE] ELSE s
IllTyped == {s \in Shapes \ Accepted : ~InsOK(Retyped(s), Env)}
BadShapes == IllTyped \cup UNION {BadVariants(s) : s \in Accepted}
             \cup UNION {BadMemVariants(s) : s \in {x \in Accepted : x.cls \in {"mov", "unarith", "lea", "push"}}}
InitBad == shape \in BadShapes
SpecBad == InitBad /\ [][Next]_vars
C14Refused == ~InsOK(shape, Env)
BadCounts == Cardinality(BadShapes) > 1000
=============================================================================
