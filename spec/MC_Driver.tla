----------------------------- MODULE MC_Driver -----------------------------
(***************************************************************************)
(* Bounded models of the driver (Driver.tla):                              *)
(*   C08  every program of <= MaxBlocks blocks over a block alphabet:      *)
(*        the compiled run (indices, label/procedure tables, call stack)   *)
(*        simulates a structured semantics that walks the source items     *)
(*   C20  small programs x every prompt script of <= MaxScript commands:   *)
(*        prompts are transparent, one per executed instruction, and the   *)
(*        run terminates on every finite input (liveness under fairness)   *)
(*   C17/C18  print and service laws on a state lattice                    *)
(* With Gen = TRUE every explored program (script) is printed as a REPLAY  *)
(* line; the harness renders it and runs it through the real binary, whose *)
(* hook trace is validated by TraceRun.tla with the same operators.        *)
(***************************************************************************)
EXTENDS Programs, Json

CONSTANTS MaxBlocks, MaxScript, MaxSteps, Gen

VARIABLES mode, P, d, pos, rstack, steps
vars == <<mode, P, d, pos, rstack, steps>>

(***************************************************************************)
(* Program alphabet.  A block is a short item sequence; a program is a     *)
(* sequence of blocks with `start:` placed before one of them.             *)
(***************************************************************************)
BlockSeqs == UNION {[1 .. n -> BlockNames] : n \in 0 .. MaxBlocks}


(***************************************************************************)
(* Structured source semantics (C08): a position is <<i>> (top-level item  *)
(* i) or <<i, j>> (item j of procedure i's body, j = Len+1 = the implied   *)
(* RET at the closing brace); <<Len+1>> is the end of the program.         *)
(***************************************************************************)
Items == P.items
IsIns(it) == it.k = "ins"

\* the first instruction position at or after p in source order (labels are skipped, a procedure
\* item is entered, the end of a body is its implied RET)
RECURSIVE Settle(_)
Settle(p) ==
  IF Len(p) = 1
  THEN IF p[1] > Len(Items) THEN p
       ELSE LET it == Items[p[1]] IN
            IF it.k = "ins" THEN p
            ELSE IF it.k = "label" THEN Settle(<<p[1] + 1>>)
            ELSE Settle(<<p[1], 1>>)
  ELSE LET body == Items[p[1]].body IN
       IF p[2] > Len(body) THEN p
       ELSE IF body[p[2]].k = "ins" THEN p ELSE Settle(<<p[1], p[2] + 1>>)

\* position following p in source order (after the implied RET of a body comes the next top-level item)
After(p) ==
  IF Len(p) = 1 THEN Settle(<<p[1] + 1>>)
  ELSE IF p[2] > Len(Items[p[1]].body) THEN Settle(<<p[1] + 1>>) ELSE Settle(<<p[1], p[2] + 1>>)

\* where a label is defined: top level or inside a procedure body
LabelPos(n) ==
  IF \E i \in 1 .. Len(Items) : Items[i].k = "label" /\ Items[i].name = n
  THEN Settle(<<(CHOOSE i \in 1 .. Len(Items) : Items[i].k = "label" /\ Items[i].name = n) + 1>>)
  ELSE LET i == CHOOSE i \in 1 .. Len(Items) : Items[i].k = "proc" /\ \E j \in 1 .. Len(Items[i].body) : Items[i].body[j].k = "label" /\ Items[i].body[j].name = n
           j == CHOOSE j \in 1 .. Len(Items[i].body) : Items[i].body[j].k = "label" /\ Items[i].body[j].name = n
       IN Settle(<<i, j + 1>>)
ProcPos(n) == Settle(<<CHOOSE i \in 1 .. Len(Items) : Items[i].k = "proc" /\ Items[i].name = n, 1>>)

\* the instruction at a position; the end of the program is the driver's HLT
AtEnd(p) == Len(p) = 1 /\ p[1] > Len(Items)
AstAt(p) ==
  IF AtEnd(p) THEN HltIns
  ELSE IF Len(p) = 1 THEN Items[p[1]].ast
  ELSE IF p[2] > Len(Items[p[1]].body) THEN [cls |-> "ret"] ELSE Items[p[1]].body[p[2]].ast

\* number of instructions that precede position p in source order = its index in the emitted list
RECURSIVE CountIns(_)
CountIns(its) == IF its = << >> THEN 0
                 ELSE (IF Head(its).k = "ins" THEN 1 ELSE IF Head(its).k = "proc" THEN CountIns(Head(its).body) + 1 ELSE 0) + CountIns(Tail(its))
IndexOf(p) ==
  IF Len(p) = 1 THEN CountIns(SubSeq(Items, 1, p[1] - 1))
  ELSE CountIns(SubSeq(Items, 1, p[1] - 1)) + CountIns(SubSeq(Items[p[1]].body, 1, p[2] - 1))

(***************************************************************************)
C == Compile(P)
L == Load(P)

InitC08 ==
  /\ mode = "c08" /\ steps = 0 /\ rstack = << >>
  /\ \E bs \in BlockSeqs : \E s \in 1 .. Len(bs) + 1 :
       /\ Valid(bs)
       /\ P = MkProgram(ItemsOf(bs, s), FALSE, << >>)
  /\ d = Boot(P, Compile(P), << >>)
  /\ pos = LabelPos("start")

\* one driver transition; when it is an invocation the structured semantics moves too
NextRun ==
  /\ mode \in {"c08", "c20"} /\ d.phase # "done" /\ steps < MaxSteps
  /\ \E d2 \in Successors(P, C, L, d) :
       /\ d' = d2
       /\ IF d.phase = "invoke"
          THEN LET a == AstAt(pos)
                   taken == d2.idx # d.idx + 1 \/ d2.phase = "done"
               IN /\ steps' = steps + 1
                  /\ CASE d2.phase = "done" -> pos' = pos /\ rstack' = rstack
                       [] a.cls = "call" -> pos' = ProcPos(a.proc) /\ rstack' = Append(rstack, After(pos))
                       [] a.cls = "ret" -> pos' = rstack[Len(rstack)] /\ rstack' = SubSeq(rstack, 1, Len(rstack) - 1)
                       [] a.cls = "jcc" /\ d2.idx # d.idx + 1 -> pos' = LabelPos(a.label) /\ rstack' = rstack
                       [] OTHER -> pos' = After(pos) /\ rstack' = rstack
          ELSE UNCHANGED <<pos, rstack, steps>>
  /\ UNCHANGED <<mode, P>>

\* the simulation: the compiled run is at the index of the structured position, the two call
\* stacks agree, execution started after `start`, and nothing runs after the end
C08Simulation ==
  mode = "c08" =>
    /\ (d.phase # "done" => d.idx = IndexOf(pos))
    /\ Len(d.m.stack) = Len(rstack)
    /\ \A j \in 1 .. Len(rstack) : d.m.stack[j] = IndexOf(rstack[j])
    /\ d.idx <= Len(C.code)
    /\ (d.phase # "done" /\ d.idx < Len(C.code) => InsAt(C, L.labels, d.idx).cls = AstAt(pos).cls)
C08Tables ==
  mode = "c08" =>
    /\ Len(C.code) = CountIns(P.items)
    /\ \A n \in DOMAIN C.labels : C.labels[n] = IndexOf(LabelPos(n))
    /\ \A n \in DOMAIN C.procs : C.procs[n] = IndexOf(ProcPos(n))
    /\ (steps = 0 => d.idx = IndexOf(LabelPos("start")))
C08EndsWell ==
  (mode = "c08" /\ d.phase = "done") => d.why \in {"halt", "error"} /\ (d.why = "error" => AstAt(pos).cls = "ret" /\ rstack = << >>)

C08Emit ==
  (Gen /\ mode = "c08" /\ d.phase = "done") => PrintT(<<"REPLAY", ToJson([items |-> P.items, interp |-> FALSE, stdin |-> << >>])>>)

(***************************************************************************)
(* C20: stepping                                                           *)
(***************************************************************************)
Cmds == { [cls |-> "next", raw |-> "n\n", bytes |-> <<110, 10>>],
          [cls |-> "print", raw |-> "print flags\n", bytes |-> << >>, what |-> [k |-> "flags"]],
          [cls |-> "garbage", raw |-> "x\n", bytes |-> << >>],
          [cls |-> "garbage", raw |-> "\n", bytes |-> << >>],
          \* a line that is not valid UTF-8 (the harness writes a byte FFh): reported, then the run goes on as after `next`
          [cls |-> "unreadable", raw |-> "?\n", bytes |-> << >>],
          [cls |-> "quit", raw |-> "q\n", bytes |-> << >>] }
Scripts == UNION {[1 .. n -> Cmds] : n \in 0 .. MaxScript}

InitC20 ==
  /\ mode = "c20" /\ steps = 0 /\ rstack = << >> /\ pos = << >>
  /\ \E items \in SmallPrograms, interp \in BOOLEAN, s \in Scripts \cup {AllNext(40)} :
       P = MkProgram(items, interp, s)
  /\ d = Boot(P, Compile(P), << >>)

\* NextRun maintains pos/rstack for c08; c20 leaves them alone
NextRun20 ==
  /\ mode = "c20" /\ d.phase # "done" /\ steps < MaxSteps
  /\ \E d2 \in Successors(P, C, L, d) : d' = d2 /\ steps' = IF d.phase = "invoke" THEN steps + 1 ELSE steps
  /\ UNCHANGED <<mode, P, pos, rstack>>

\* the plain run of the same program (no -i, no input): final machine and program output
RECURSIVE PlainRun(_, _)
PlainRun(dd, fuel) ==
  IF dd.phase = "done" \/ fuel = 0 THEN dd
  ELSE LET nxt == Successors([P EXCEPT !.interp = FALSE], C, L, dd)
       IN IF nxt = {} THEN dd ELSE PlainRun(CHOOSE x \in nxt : TRUE, fuel - 1)

ProgramOutput(dd) == FlatOut(SelectSeq(dd.out, LAMBDA ch : ch.t \in {"print", "charout"}))

\* prompt commands never change the machine or the position in the program
C20PromptPure ==
  mode = "c20" =>
    \A d2 \in Successors(P, C, L, d) :
      d.phase = "prompt" => d2.m = d.m /\ (d2.idx = d.idx \/ (d.after = "advance" /\ d2.idx = d.idx + 1))
\* while stepping, an invocation of a real instruction is always preceded by its prompt
C20OnePrompt ==
  (mode = "c20" /\ d.phase = "invoke" /\ Stepping(P, d) /\ d.idx < Len(C.code) /\ ~d.rep) =>
     \E j \in 1 .. Len(d.out) : d.out[j].t = "stepbanner"
\* a run stepped to the end gives the program output and final machine of the plain run
C20SameResult ==
  (mode = "c20" /\ d.phase = "done" /\ d.why = "halt") =>
    LET plain == PlainRun(Boot([P EXCEPT !.stdin = << >>, !.interp = FALSE], C, << >>), 200)
    IN \* programs with INT 3 or TF consume input in the plain run too; compare only when the plain run completed
       (plain.phase = "done" /\ plain.why = "halt") =>
         /\ plain.m.regs = d.m.regs /\ plain.m.mem = d.m.mem
         /\ ProgramOutput(plain) = ProgramOutput(d)
C20Terminates == (mode = "c20") ~> (mode = "c20" /\ (d.phase = "done" \/ steps >= MaxSteps))

C20Emit ==
  (Gen /\ mode = "c20" /\ steps = 0 /\ d.phase = "fetch" /\ d.out = << >>) =>
     PrintT(<<"REPLAY", ToJson([items |-> P.items, interp |-> P.interp, stdin |-> P.stdin])>>)

(***************************************************************************)
(* C17 / C18 laws                                                          *)
(***************************************************************************)
LawRegs == [n \in RegNames |-> CASE n = "ax" -> 2561 [] n = "dx" -> 65283 [] n = "cx" -> 3 [] n = "ds" -> 65535
                                 [] n = "es" -> 65535 [] n = "bp" -> 14 [] OTHER -> 4660]
LawM == [regs |-> LawRegs, flags |-> 2261, mem |-> (1048575 :> 7) @@ (0 :> 9) @@ (1048563 :> 2), bg |-> 3, stack |-> << >>]
InitLaws == mode = "laws" /\ P = << >> /\ d = << >> /\ pos = << >> /\ rstack = << >> /\ steps = 0

Ranges == {<<0, 0>>, <<5, 5>>, <<0, 14>>, <<0, 15>>, <<0, 16>>, <<1048560, 1048575>>, <<1048575, 1048575>>, <<17, 3>>}
C17Laws ==
  mode = "laws" =>
    /\ \A r \in Ranges :
         LET o == PrintOut(LawM, [k |-> "range", a |-> r[1], b |-> r[2]])
             n == r[2] - r[1] + 1
             nls == Cardinality({j \in 1 .. Len(o.out) : o.out[j] = NL})
             tabs == Cardinality({j \in 1 .. Len(o.out) : o.out[j] = TAB})
         IN IF r[1] > r[2] THEN o.ok /\ nls = 1 /\ tabs = 0
            ELSE /\ o.ok /\ nls = (n + 15) \div 16
                 \* two hex digits per byte, in address order
                 /\ Len(SelectSeq(o.out, LAMBDA b : b \notin {TAB, NL})) = 2 * n
                 /\ SubSeq(o.out, 1, 2) = Hex2(Rd(LawM, r[1]))
    /\ ~PrintOut(LawM, [k |-> "span", a |-> 1048575, n |-> 1]).ok
    /\ PrintOut(LawM, [k |-> "span", a |-> 1048570, n |-> 5]).ok
    /\ LET o == PrintOut(LawM, [k |-> "dsspan", n |-> 15]) IN o.ok /\ Len(SelectSeq(o.out, LAMBDA b : b \notin {TAB, NL})) = 32
    /\ LET o == PrintOut(LawM, [k |-> "dsspan", n |-> 16]) IN Cardinality({j \in 1 .. Len(o.out) : o.out[j] = NL}) = 1 /\ o.out[1] = 69
    /\ Len(PrintRegs(LawM)) > 12 * 4 /\ Len(PrintFlags(LawM)) > 9

C18Laws ==
  mode = "laws" =>
    \A ah \in 0 .. 255 : \A n \in {16, 33} :
      /\ SupportedAh(n, ah) = (<<n, ah>> \in {<<16, 10>>, <<16, 19>>, <<33, 1>>, <<33, 2>>, <<33, 10>>})
      /\ SupportedAh(n, ah) =>
           \* (the last two lines are longer than any capacity a byte can hold: the clamp must bind -- found by specmut:
           \* with short lines only, a Service that ignored the capacity satisfied these laws)
           \A line \in {<< >>, <<NL>>, <<97, NL>>, <<97, 98, 99, NL>>, <<97, 98>>, [k \in 1 .. 300 |-> 97 + (k % 26)] \o <<NL>>, [k \in 1 .. 256 |-> 65]} :
             LET r == Service(LawM, n, ah, line)
                 base == Phys(65535, 65283)
                 cap == Rd(LawM, base)
                 changed == {a \in DOMAIN r.m.mem : r.m.mem[a] # Rd(LawM, a)}
             IN /\ \A x \in RegNames \ {"ax"} : r.m.regs[x] = LawRegs[x]
                /\ Hi(r.m.regs["ax"]) = Hi(LawRegs["ax"])
                /\ r.m.flags = LawM.flags
                /\ (<<n, ah>> # <<33, 10>> => changed = {})
                /\ (<<n, ah>> = <<33, 10>> =>
                      /\ changed \subseteq {(base + j) % MB : j \in 1 .. 1 + cap}
                      /\ Rd(r.m, (base + 1) % MB) <= cap
                      /\ Rd(r.m, (base + 1) % MB) = (IF Len(StripNl(line)) < cap THEN Len(StripNl(line)) ELSE cap))
                /\ \A a \in DOMAIN r.m.mem : a \in 0 .. MB - 1
                /\ (ReadsStdin(n, ah) \/ r.out = r.out)

(***************************************************************************)
(* C12: the loader on every sequence of <= MaxBlocks definitions           *)
(***************************************************************************)
Defs ==
  { [k |-> "set", v |-> 0], [k |-> "set", v |-> 4096], [k |-> "set", v |-> 65535],
    [k |-> "def", label |-> "a", dir |-> "db", form |-> "num", v |-> 255],
    [k |-> "def", label |-> "b", dir |-> "dw", form |-> "num", v |-> 4660],
    [k |-> "def", label |-> "", dir |-> "db", form |-> "zero", n |-> 3],
    [k |-> "def", label |-> "c", dir |-> "dw", form |-> "fill", v |-> 65534, n |-> 2],
    [k |-> "def", label |-> "d", dir |-> "db", form |-> "str", bytes |-> <<104, 105>>],
    [k |-> "def", label |-> "e", dir |-> "dw", form |-> "str", bytes |-> <<104, 105>>],
    [k |-> "def", label |-> "", dir |-> "db", form |-> "zero", n |-> 65535],
    [k |-> "def", label |-> "f", dir |-> "db", form |-> "fill", v |-> 7, n |-> 20] }
DefSeqs == UNION {[1 .. n -> Defs] : n \in 0 .. MaxBlocks}

InitC12 ==
  /\ mode = "c12" /\ steps = 0 /\ rstack = << >> /\ pos = << >> /\ d = << >>
  /\ \E ds \in DefSeqs : P = [data |-> ds, items |-> <<Lab("start")>>, interp |-> FALSE, stdin |-> << >>]

\* independent reading of the property: walk the definitions keeping the running offset per segment
RECURSIVE Walk(_, _, _, _)
Walk(data, j, seg, off) ==      \* sequence of [seg, off, len, item] for the definitions
  IF j > Len(data) THEN << >>
  ELSE IF data[j].k = "set" THEN Walk(data, j + 1, data[j].v, 0)
  ELSE <<[seg |-> seg, off |-> off, len |-> ItemLen(data[j]), it |-> data[j]]>> \o Walk(data, j + 1, seg, off + ItemLen(data[j]))

C12Layout ==
  mode = "c12" =>
    LET LL == Load(P)
        ws == Walk(P.data, 1, 0, 0)
    IN \* every label = offset of the first byte of its (last) definition within its segment
       /\ \A j \in 1 .. Len(ws) : (ws[j].it.label # "" /\ \A i \in j + 1 .. Len(ws) : ws[i].it.label # ws[j].it.label)
                                     => LL.labels[ws[j].it.label] = ws[j].off
       \* contiguity: a definition starts where the previous one of the same segment run ended
       /\ \A j \in 1 .. Len(ws) - 1 : (ws[j + 1].off # 0) => ws[j + 1].off = ws[j].off + ws[j].len /\ ws[j + 1].seg = ws[j].seg
       \* the bytes of the LAST definition are in memory exactly (nothing later overwrote them)
       /\ (ws # << >> =>
             LET z == ws[Len(ws)]
                 bs == ItemBytes(z.it)
             IN \A i \in 1 .. (IF Len(bs) > 40 THEN 40 ELSE Len(bs)) :
                  LET a == (z.seg * 16 + z.off + i - 1) % MB
                  IN (IF a \in DOMAIN LL.mem THEN LL.mem[a] ELSE 0) = bs[i])
       \* words are stored low byte first; DW strings one zero-extended word per character
       /\ ItemBytes([k |-> "def", label |-> "", dir |-> "dw", form |-> "num", v |-> 4660]) = <<52, 18>>
       /\ ItemBytes([k |-> "def", label |-> "", dir |-> "dw", form |-> "str", bytes |-> <<65, 66>>]) = <<65, 0, 66, 0>>
       /\ ItemBytes([k |-> "def", label |-> "", dir |-> "db", form |-> "str", bytes |-> <<65, 66>>]) = <<65, 66>>
       \* every stored byte is non-zero (the image lists only what differs from the all-zero memory) and in range
       /\ \A a \in DOMAIN LL.mem : a \in 0 .. MB - 1 /\ LL.mem[a] \in 1 .. 255
       \* exceeding 64 KiB in a segment is flagged
       /\ LL.over = (\E j \in 1 .. Len(ws) : ws[j].off + ws[j].len > 65536)
       \* the machine starts with DS = 0 whatever SET said
       /\ BootMachine(LL.mem).regs["ds"] = 0

SpecC12 == InitC12 /\ [][FALSE]_vars

(***************************************************************************)
(* C14: every program of the C08 alphabet is well-formed exactly when the  *)
(* block-level validity predicate says so, and single mutations of valid   *)
(* programs are ill-formed                                                 *)
(***************************************************************************)
InitC14 ==
  /\ mode = "c14" /\ steps = 0 /\ rstack = << >> /\ pos = << >> /\ d = << >>
  /\ \E bs \in BlockSeqs : \E s \in 0 .. Len(bs) + 1 :
       P = MkProgram(ItemsOf(bs, s), FALSE, << >>)       \* s = 0: no `start` at all

HasStart == \E j \in 1 .. Len(P.items) : P.items[j].k = "label" /\ P.items[j].name = "start"
BlocksOfP == P.items
\* block-level validity restated on items: used labels defined exactly once, calls after definitions
C14Agreement ==
  mode = "c14" =>
    LET wf == WellFormed(P, << >>)
        labs == CodeLabelSeq(P.items)
        used == {a.label : a \in {x.ast : x \in {y \in SeqRange(InsWithProcs(P.items, {}, FALSE)) : y.ast.cls = "jcc"}}}
    IN /\ (wf => HasStart /\ NoDup(labs) /\ used \subseteq SeqRange(labs))
       /\ (~HasStart => ~wf)
       /\ (~NoDup(labs) => ~wf)
       /\ (~(used \subseteq SeqRange(labs)) => ~wf)
       \* a well-formed program compiles: every jump and call resolves
       /\ (wf => LET CC == Compile(P) IN
                   \A j \in 0 .. Len(CC.code) - 1 : InsAt(CC, << >>, j).cls \in {"ctl", "unarith", "jcc", "call", "ret", "mov", "print"})
\* single mutations of the constant / operand rules
C14Ranges ==
  mode = "c14" =>
    LET env == [data |-> {"v"}, offsets |-> ("v" :> 300), code |-> {"l"}, procs |-> {"p"}]
        r8 == [k |-> "reg8", r |-> "al"]  r16 == [k |-> "reg16", r |-> "bx"]
        imm(x) == [k |-> "imm", v |-> x % 65536, raw |-> x]
        mem == [k |-> "mem", seg |-> "", base |-> "bx", index |-> "si", disp |-> -3]
    IN /\ InsOK([cls |-> "mov", w |-> 8, dst |-> r8, src |-> imm(255)], env)
       /\ InsOK([cls |-> "mov", w |-> 8, dst |-> r8, src |-> imm(-128)], env)
       /\ ~InsOK([cls |-> "mov", w |-> 8, dst |-> r8, src |-> imm(256)], env)
       /\ ~InsOK([cls |-> "mov", w |-> 8, dst |-> r8, src |-> imm(-129)], env)
       /\ InsOK([cls |-> "binarith", op |-> "add", w |-> 16, dst |-> r16, src |-> imm(-32768)], env)
       /\ ~InsOK([cls |-> "binarith", op |-> "add", w |-> 16, dst |-> r16, src |-> imm(65536)], env)
       /\ ~InsOK([cls |-> "logic", op |-> "and", w |-> 16, dst |-> r16, src |-> imm(-1)], env)
       /\ ~InsOK([cls |-> "mov", w |-> 8, dst |-> r8, src |-> r16], env)
       /\ ~InsOK([cls |-> "mov", w |-> 16, dst |-> mem, src |-> mem], env)
       /\ InsOK([cls |-> "mov", w |-> 16, dst |-> mem, src |-> r16], env)
       /\ ~InsOK([cls |-> "mov", w |-> 8, dst |-> r8, src |-> [k |-> "offset", name |-> "v"]], env)
       /\ InsOK([cls |-> "mov", w |-> 16, dst |-> r16, src |-> [k |-> "offset", name |-> "v"]], env)
       /\ ~InsOK([cls |-> "mov", w |-> 16, dst |-> r16, src |-> [k |-> "offset", name |-> "l"]], env)
       /\ ~InsOK([cls |-> "pop", dst |-> [k |-> "sreg", r |-> "cs"]], env)
       /\ InsOK([cls |-> "push", src |-> [k |-> "sreg", r |-> "cs"]], env)
       /\ ~InsOK([cls |-> "call", proc |-> "l"], env) /\ InsOK([cls |-> "call", proc |-> "p"], env)
       /\ ~InsOK([cls |-> "jcc", mn |-> "jmp", label |-> "v"], env) /\ InsOK([cls |-> "jcc", mn |-> "jmp", label |-> "l"], env)
       /\ ~InsOK([cls |-> "int", n |-> 5], env) /\ InsOK([cls |-> "int", n |-> 33], env)
       /\ ~InsOK([cls |-> "unsupported", text |-> "into"], env)
       /\ ~InsOK([cls |-> "string", op |-> "movs", w |-> 8, rep |-> "repz"], env)

SpecC14 == InitC14 /\ [][FALSE]_vars

(***************************************************************************)
SpecC08 == InitC08 /\ [][NextRun]_vars
SpecC20 == InitC20 /\ [][NextRun20]_vars /\ WF_vars(NextRun20)
SpecLaws == InitLaws /\ [][FALSE]_vars
=============================================================================
