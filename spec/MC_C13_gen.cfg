SPECIFICATION Spec
CONSTANT MaxMacros = 3
CONSTANT MaxUnits = 2
CONSTANT Gen = TRUE
INVARIANT Emit
CHECK_DEADLOCK FALSE
