--------------------------------- MODULE Asm ---------------------------------
(***************************************************************************)
(* Static semantics of the source language (syntax.md): which programs the *)
(* assembler must accept and which it must refuse with a diagnostic (C14), *)
(* and the finite set of instruction shapes of the grammar (C10).          *)
(*                                                                         *)
(* WellFormed(P) holds iff                                                 *)
(*   - no code label, data label or procedure is defined twice             *)
(*   - every jump names a code label defined somewhere in the program      *)
(*   - every call names a procedure defined before the call                *)
(*   - every data operand / OFFSET names a data label                      *)
(*   - every instruction has one of the operand-kind combinations of its   *)
(*     production, operand widths agree, at most one memory operand,       *)
(*     every constant lies in the range of its position                    *)
(*   - no unsupported instruction / interrupt / directive is used          *)
(*   - a code label `start` exists                                         *)
(* Constants carry the value as written in the source in the field `raw`   *)
(* (imm) / `disp` (memory operands).                                       *)
(***************************************************************************)
EXTENDS Integers, Sequences, FiniteSets

Reg8s  == {"al", "ah", "bl", "bh", "cl", "ch", "dl", "dh"}
Reg16s == {"ax", "bx", "cx", "dx", "sp", "bp", "si", "di"}
Sregs  == {"es", "cs", "ss", "ds"}

InRangeS(v, w) == IF w = 8 THEN v \in -128 .. 255 ELSE v \in -32768 .. 65535
InRangeU(v, w) == IF w = 8 THEN v \in 0 .. 255 ELSE v \in 0 .. 65535

\* operand kinds
IsReg(o, w) == (w = 8 /\ o.k = "reg8" /\ o.r \in Reg8s) \/ (w = 16 /\ o.k = "reg16" /\ o.r \in Reg16s)
IsSreg(o) == o.k = "sreg" /\ o.r \in Sregs
MemOK(o) ==
  /\ o.k = "mem"
  /\ o.seg \in Sregs \cup {""}
  /\ \/ (o.base = "" /\ o.index = "" /\ o.disp \in 0 .. 65535)                       \* direct: unsigned
     \/ (o.base \in {"bx", "bp"} /\ o.index = "" /\ o.disp \in -32768 .. 65535)
     \/ (o.base = "" /\ o.index \in {"si", "di"} /\ o.disp \in -32768 .. 65535)
     \/ (o.base \in {"bx", "bp"} /\ o.index \in {"si", "di"} /\ o.disp \in -32768 .. 65535)
LabelOK(o, env) == o.k = "label" /\ o.name \in env.data
IsMemLike(o, env) == MemOK(o) \/ LabelOK(o, env)
\* a constant: written number or OFFSET of a data label (byte positions need an offset <= 255)
ImmOK(o, w, signed, env) ==
  \/ (o.k = "imm" /\ LET written == IF "raw" \in DOMAIN o THEN o.raw ELSE o.v
                     IN IF signed THEN InRangeS(written, w) ELSE InRangeU(written, w))
  \/ (o.k = "offset" /\ o.name \in env.data /\ (w = 16 \/ env.offsets[o.name] <= 255))

\* the two-operand table shared by arithmetic, logic and mov
PairOK(d, s, w, signed, env) ==
  \/ (IsReg(d, w) /\ IsReg(s, w))
  \/ (IsReg(d, w) /\ IsMemLike(s, env))
  \/ (IsMemLike(d, env) /\ IsReg(s, w))
  \/ (IsReg(d, w) /\ ImmOK(s, w, signed, env))
  \/ (IsMemLike(d, env) /\ ImmOK(s, w, signed, env))

StrOK(a) ==
  /\ a.w \in {8, 16}
  /\ \/ (a.op \in {"movs", "lods", "stos"} /\ a.rep \in {"", "rep"})
     \/ (a.op \in {"cmps", "scas"} /\ a.rep \in {"", "repz", "repnz"})

MBv == 1048576
\* a constant of a print statement is a number or `offset <data label>` (field <f>sym holds the name, <f> is then 0)
SymName(wt, f) == f \o "sym"
SymOK(wt, f, env) == SymName(wt, f) \notin DOMAIN wt \/ wt[SymName(wt, f)] \in env.data
SymVal(wt, f, env) == IF SymName(wt, f) \in DOMAIN wt THEN env.offsets[wt[SymName(wt, f)]] ELSE wt[f]
PrintOK(wt, env) ==
  CASE wt.k \in {"flags", "reg"} -> TRUE
    [] wt.k = "range" -> wt.a \in 0 .. 2147483647 /\ wt.b \in 0 .. 2147483647 /\ SymOK(wt, "a", env) /\ SymOK(wt, "b", env)
    [] wt.k = "span" -> /\ wt.a \in 0 .. 2147483647 /\ wt.n \in 0 .. 2147483647 /\ SymOK(wt, "a", env) /\ SymOK(wt, "n", env)
                        /\ (SymVal(wt, "a", env) % MBv) + (SymVal(wt, "n", env) % MBv) < MBv
    [] wt.k = "dsspan" -> wt.n \in 0 .. 2147483647 /\ SymOK(wt, "n", env)
    [] OTHER -> FALSE

\* env = [data (set of data label names), offsets (name -> offset), code (set of code label names),
\*        procs (set of procedure names defined so far)]
InsOK(a, env) ==
  CASE a.cls = "binarith" -> a.op \in {"add", "adc", "sub", "sbb", "cmp"} /\ a.w \in {8, 16} /\ PairOK(a.dst, a.src, a.w, TRUE, env)
    [] a.cls = "logic"    -> a.op \in {"and", "or", "xor", "test"} /\ a.w \in {8, 16} /\ PairOK(a.dst, a.src, a.w, FALSE, env)
    [] a.cls = "not"      -> a.w \in {8, 16} /\ (IsReg(a.dst, a.w) \/ IsMemLike(a.dst, env))
    [] a.cls = "unarith"  -> a.op \in {"inc", "dec", "neg", "mul", "imul", "div", "idiv"} /\ a.w \in {8, 16}
                             /\ (IsReg(a.dst, a.w) \/ IsMemLike(a.dst, env))
    [] a.cls = "shift"    -> a.op \in {"sal", "shr", "sar", "rol", "ror", "rcl", "rcr"} /\ a.w \in {8, 16}
                             /\ (IsReg(a.dst, a.w) \/ IsMemLike(a.dst, env))
                             /\ (a.cnt.k = "cl" \/ (a.cnt.k = "imm" /\ a.cnt.v \in 0 .. 255))
    [] a.cls = "adjust"   -> a.op \in {"aaa", "aas", "daa", "das", "aam", "aad", "cbw", "cwd"}
    [] a.cls = "mov" ->
         \/ (a.w \in {8, 16} /\ PairOK(a.dst, a.src, a.w, TRUE, env))
         \/ (a.w = 16 /\ IsSreg(a.dst) /\ (IsReg(a.src, 16) \/ IsMemLike(a.src, env)))
         \/ (a.w = 16 /\ IsSreg(a.src) /\ (IsReg(a.dst, 16) \/ IsMemLike(a.dst, env)))
    [] a.cls = "xchg" ->
         /\ a.w \in {8, 16}
         /\ \/ (IsReg(a.a, a.w) /\ IsReg(a.b, a.w))
            \/ (IsMemLike(a.a, env) /\ IsReg(a.b, a.w))
            \/ (IsReg(a.a, a.w) /\ IsMemLike(a.b, env))
    [] a.cls = "push" -> IsReg(a.src, 16) \/ IsSreg(a.src) \/ IsMemLike(a.src, env)
    [] a.cls = "pop"  -> IsReg(a.dst, 16) \/ (IsSreg(a.dst) /\ a.dst.r # "cs") \/ IsMemLike(a.dst, env)
    [] a.cls = "lea"  -> IsReg(a.dst, 16) /\ IsMemLike(a.src, env)
    [] a.cls = "flagsx" -> a.op \in {"lahf", "sahf", "pushf", "popf"}
    [] a.cls = "xlat" -> TRUE
    [] a.cls = "ctl"  -> a.op \in {"stc", "clc", "cmc", "std", "cld", "sti", "cli", "hlt", "nop"}
    [] a.cls = "jcc"  -> a.label \in env.code
    [] a.cls = "call" -> a.proc \in env.procs
    [] a.cls = "ret"  -> TRUE
    [] a.cls = "int"  -> a.n \in {3, 16, 33}
    [] a.cls = "string" -> StrOK(a)
    [] a.cls = "print" -> PrintOK(a.what, env)
    [] OTHER -> FALSE         \* unsupported instruction (in, out, lds, les, into, iret, wait, esc, lock, ...)

(***************************************************************************)
(* Names defined by a program                                              *)
(***************************************************************************)
RECURSIVE CodeLabelSeq(_)
CodeLabelSeq(items) ==       \* every code-label definition in source order (with repetitions)
  IF items = << >> THEN << >>
  ELSE LET it == Head(items) IN
       (IF it.k = "label" THEN <<it.name>> ELSE IF it.k = "proc" THEN CodeLabelSeq(it.body) ELSE << >>)
       \o CodeLabelSeq(Tail(items))
RECURSIVE ProcSeq(_)
ProcSeq(items) == IF items = << >> THEN << >>
                  ELSE (IF Head(items).k = "proc" THEN <<Head(items).name>> ELSE << >>) \o ProcSeq(Tail(items))
DataLabelSeq(data) == SelectSeq([j \in 1 .. Len(data) |-> IF data[j].k = "def" THEN data[j].label ELSE ""], LAMBDA n : n # "")

NoDup(s) == \A i, j \in 1 .. Len(s) : s[i] = s[j] => i = j
SeqRange(s) == {s[j] : j \in 1 .. Len(s)}

DataItemOK(it) ==
  IF it.k = "set" THEN it.v \in 0 .. 65535
  ELSE LET w == IF it.dir = "db" THEN 8 ELSE 16 IN
       CASE it.form = "num"  -> InRangeS(it.raw, w)
         [] it.form = "zero" -> it.n \in 0 .. 65535
         [] it.form = "fill" -> InRangeS(it.raw, w) /\ it.n \in 0 .. 65535
         [] it.form = "str"  -> Len(it.bytes) <= (IF w = 8 THEN 65523 ELSE 32755)
         [] OTHER -> FALSE

\* instructions in source order paired with the procedures defined before them and whether they
\* stand inside a procedure body (print statements are not allowed there)
RECURSIVE InsWithProcs(_, _, _)
InsWithProcs(items, procs, inproc) ==
  IF items = << >> THEN << >>
  ELSE LET it == Head(items) IN
    CASE it.k = "ins"  -> <<[ast |-> it.ast, procs |-> procs, inproc |-> inproc]>> \o InsWithProcs(Tail(items), procs, inproc)
      [] it.k = "proc" -> InsWithProcs(it.body, procs \cup {it.name}, TRUE) \o InsWithProcs(Tail(items), procs \cup {it.name}, inproc)
      [] OTHER -> InsWithProcs(Tail(items), procs, inproc)

RECURSIVE NoEmptyProc(_)
NoEmptyProc(items) ==
  \A j \in 1 .. Len(items) : items[j].k = "proc" => items[j].body # << >> /\ \A i \in 1 .. Len(items[j].body) : items[j].body[i].k # "proc"

WellFormed(P, offsets) ==
  LET cl == CodeLabelSeq(P.items)
      dl == DataLabelSeq(P.data)
      ps == ProcSeq(P.items)
      all == InsWithProcs(P.items, {}, FALSE)
  IN /\ NoDup(cl \o dl)                  \* one name space for code and data labels
     /\ NoDup(ps)
     /\ "start" \in SeqRange(cl)
     /\ \A j \in 1 .. Len(P.data) : DataItemOK(P.data[j])
     /\ NoEmptyProc(P.items)
     /\ \A j \in 1 .. Len(all) : ~(all[j].inproc /\ all[j].ast.cls = "print")
     /\ \A j \in 1 .. Len(all) :
          InsOK(all[j].ast, [data |-> SeqRange(dl), offsets |-> offsets, code |-> SeqRange(cl), procs |-> all[j].procs])
=============================================================================
