-------------------------------- MODULE Alu --------------------------------
(***************************************************************************)
(* Pure 8086 ALU semantics.  Every operator returns a record               *)
(*    [res, fl, def, undef]                                                *)
(* res   : result bit pattern                                              *)
(* fl    : values of the flags the instruction DEFINES (bits outside def=0)*)
(* def   : mask of flags whose value is architecturally defined            *)
(* undef : mask of flags the manual leaves undefined (any value accepted)  *)
(* Flags outside def+undef are unchanged by the instruction.               *)
(***************************************************************************)
EXTENDS Bits

CF == 1      PF == 4      AF == 16     ZF == 64     SF == 128
TF == 256    IFL == 512   DF == 1024   OF == 2048
Status == CF + PF + AF + ZF + SF + OF
FlagSet(f, m) == (f \div m) % 2 = 1

SZP(w, r) == B(r = 0, ZF) + B(Msb(w, r) = 1, SF) + B(Parity8(r), PF)

R(res, fl, def, undef) == [res |-> res, fl |-> fl, def |-> def, undef |-> undef]

(***************************************************************************)
(* Addition and subtraction by carry chains (carry into / out of the top   *)
(* bit, nibble carry).                                                     *)
(***************************************************************************)
AddW(w, a, b, c) ==
  LET s   == a + b + c
      r   == s % Pow2(w)
      cf  == s >= Pow2(w)
      af  == (a % 16) + (b % 16) + c >= 16
      h   == Pow2(w - 1)
      cin == (a % h) + (b % h) + c >= h          \* carry into the top bit
  IN R(r, B(cf, CF) + B(af, AF) + B(cin # cf, OF) + SZP(w, r), Status, 0)

SubW(w, a, b, c) ==
  LET d   == a - b - c
      r   == d % Pow2(w)
      cf  == d < 0
      af  == (a % 16) - (b % 16) - c < 0
      h   == Pow2(w - 1)
      bin == (a % h) - (b % h) - c < 0            \* borrow into the top bit
  IN R(r, B(cf, CF) + B(af, AF) + B(bin # cf, OF) + SZP(w, r), Status, 0)

\* bit-serial full adder / subtractor, used only to cross-check the above
RECURSIVE RippleAdd(_, _, _, _, _)
RippleAdd(w, a, b, c, k) ==       \* <<sum bits k..w-1 weighted, carry out, carry into top>>
  IF k = w THEN << 0, c, c >>
  ELSE LET x == Bit(a, k)  y == Bit(b, k)
           s == (x + y + c) % 2
           co == (x + y + c) \div 2
           rest == RippleAdd(w, a, b, co, k + 1)
       IN << s * Pow2(k) + rest[1], rest[2], IF k = w - 1 THEN c ELSE rest[3] >>

RECURSIVE RippleSub(_, _, _, _, _)
RippleSub(w, a, b, c, k) ==
  IF k = w THEN << 0, c, c >>
  ELSE LET x == Bit(a, k)  y == Bit(b, k)
           d == (x - y - c) % 2
           bo == IF x - y - c < 0 THEN 1 ELSE 0
           rest == RippleSub(w, a, b, bo, k + 1)
       IN << d * Pow2(k) + rest[1], rest[2], IF k = w - 1 THEN c ELSE rest[3] >>

Inc(w, a) == LET r == AddW(w, a, 1, 0) IN R(r.res, r.fl - B(FlagSet(r.fl, CF), CF), Status - CF, 0)
Dec(w, a) == LET r == SubW(w, a, 1, 0) IN R(r.res, r.fl - B(FlagSet(r.fl, CF), CF), Status - CF, 0)
Neg(w, a) == SubW(w, 0, a, 0)
\* CMP: flags of SUB, destination unchanged
Cmp(w, a, b) == LET r == SubW(w, a, b, 0) IN R(a, r.fl, r.def, 0)

BinArith(op, w, a, b, cin) ==
  CASE op = "add" -> AddW(w, a, b, 0)
    [] op = "adc" -> AddW(w, a, b, cin)
    [] op = "sub" -> SubW(w, a, b, 0)
    [] op = "sbb" -> SubW(w, a, b, cin)
    [] op = "cmp" -> Cmp(w, a, b)

(***************************************************************************)
(* Logic                                                                   *)
(***************************************************************************)
RECURSIVE BitwiseOp(_, _, _, _)
BitwiseOp(op, a, b, k) ==
  IF k = 16 THEN 0
  ELSE LET x == Bit(a, k)  y == Bit(b, k)
           z == CASE op = "and" -> x * y
                  [] op = "test" -> x * y
                  [] op = "or"  -> IF x + y > 0 THEN 1 ELSE 0
                  [] op = "xor" -> (x + y) % 2
       IN z * Pow2(k) + BitwiseOp(op, a, b, k + 1)

Logic(op, w, a, b) ==
  LET v == BitwiseOp(op, a, b, 0)
  IN R(IF op = "test" THEN a ELSE v, SZP(w, v), CF + OF + SF + ZF + PF, AF)

NotW(w, a) == R(Pow2(w) - 1 - a, 0, 0, 0)

(***************************************************************************)
(* Shifts and rotates: single-bit steps on <<value, carry>>, n-fold        *)
(* iteration (the manual's "while count # 0" loop), and closed forms.      *)
(***************************************************************************)
Step1(op, w, v, c) ==
  CASE op = "sal" -> << (2 * v) % Pow2(w), Msb(w, v) >>
    [] op = "shr" -> << v \div 2, v % 2 >>
    [] op = "sar" -> << v \div 2 + Msb(w, v) * Pow2(w - 1), v % 2 >>
    [] op = "rol" -> << ((2 * v) % Pow2(w)) + Msb(w, v), Msb(w, v) >>
    [] op = "ror" -> << v \div 2 + (v % 2) * Pow2(w - 1), v % 2 >>
    [] op = "rcl" -> << ((2 * v) % Pow2(w)) + c, Msb(w, v) >>
    [] op = "rcr" -> << v \div 2 + c * Pow2(w - 1), v % 2 >>

RECURSIVE Iterate(_, _, _, _, _)
Iterate(op, w, v, c, n) ==
  IF n = 0 THEN << v, c >>
  ELSE LET s == Step1(op, w, v, c) IN Iterate(op, w, s[1], s[2], n - 1)

RotL(w, x, m) == IF m = 0 THEN x ELSE (x % Pow2(w - m)) * Pow2(m) + x \div Pow2(w - m)
RotR(w, x, m) == IF m = 0 THEN x ELSE RotL(w, x, w - m)

\* closed form for n >= 1
Closed(op, w, v, c, n) ==
  CASE op = "sal" ->
         IF n > w THEN << 0, 0 >>
         ELSE IF n = w THEN << 0, v % 2 >>
         ELSE << (v % Pow2(w - n)) * Pow2(n), Bit(v, w - n) >>
    [] op = "shr" ->
         IF n > w THEN << 0, 0 >>
         ELSE IF n = w THEN << 0, Msb(w, v) >>
         ELSE << v \div Pow2(n), Bit(v, n - 1) >>
    [] op = "sar" ->
         IF n >= w THEN << Msb(w, v) * (Pow2(w) - 1), Msb(w, v) >>
         ELSE << v \div Pow2(n) + Msb(w, v) * (Pow2(w) - Pow2(w - n)), Bit(v, n - 1) >>
    [] op = "rol" -> LET r == RotL(w, v, n % w) IN << r, r % 2 >>
    [] op = "ror" -> LET r == RotR(w, v, n % w) IN << r, Msb(w, r) >>
    [] op = "rcl" -> LET x == RotL(w + 1, c * Pow2(w) + v, n % (w + 1))
                     IN << x % Pow2(w), x \div Pow2(w) >>
    [] op = "rcr" -> LET x == RotR(w + 1, c * Pow2(w) + v, n % (w + 1))
                     IN << x % Pow2(w), x \div Pow2(w) >>

IsShift(op) == op \in {"sal", "shr", "sar"}

\* OF after a single-bit shift/rotate (v = original, r = result, c = new CF)
Of1(op, w, v, r, c) ==
  CASE op \in {"sal", "rol", "rcl"} -> Msb(w, r) # c
    [] op = "shr" -> Msb(w, v) = 1
    [] op = "sar" -> FALSE
    [] op \in {"ror", "rcr"} -> Msb(w, r) # Bit(r, w - 2)

\* the architectural result given the <<value, carry>> pair vc reached after n steps
ShiftResult(op, w, v, cin, n, vc) ==
  IF n = 0 THEN R(v, 0, 0, 0)
  ELSE LET r == vc[1]  c == vc[2]
           \* "behave as that many single-bit steps ... OF as defined for a count of 1": the OF of the last step.
           \* Only SHR's rule looks at the value before the step: after the first step its top bit is 0.
           o == IF op = "shr" THEN B(n = 1 /\ Msb(w, v) = 1, OF) ELSE B(Of1(op, w, v, r, c), OF)
           odef == OF
       IN IF IsShift(op)
          THEN R(r, B(c = 1, CF) + SZP(w, r) + o, CF + SF + ZF + PF + odef, AF + (OF - odef))
          ELSE R(r, B(c = 1, CF) + o, CF + odef, OF - odef)

Shift(op, w, v, cin, n) ==
  ShiftResult(op, w, v, cin, n, IF n = 0 THEN << v, cin >> ELSE Closed(op, w, v, cin, n))
ShiftIter(op, w, v, cin, n) == ShiftResult(op, w, v, cin, n, Iterate(op, w, v, cin, n))

(***************************************************************************)
(* Multiply / divide.  Results are [ax, dx, fl, def, undef, ok]; ok=FALSE  *)
(* means divide error (INT 0), in which case ax/dx are unconstrained.      *)
(* qmin is TRUE when the signed quotient is exactly -2^(w-1): the manual's *)
(* text and pseudo-code disagree there, so both outcomes are accepted.     *)
(***************************************************************************)
\* Oracle decision 3 (DESIGN 7): the manual's text gives the IDIV quotient range as -(2^(w-1) - 1) .. 2^(w-1) - 1, its
\* pseudo-code and the property ("a quotient that does not fit ends with INT 0"; DIV and IDIV "leave quotient and
\* remainder") as every quotient that fits the destination.  -2^(w-1) fits: it must be delivered.  (TRUE = the earlier,
\* looser reading that also accepted the divide error for exactly that quotient; seeded change C03-n passed under it.)
AcceptMinQuotientTrap == FALSE
MD(ax, dx, fl, def, undef, ok, qmin) ==
  [ax |-> ax, dx |-> dx, fl |-> fl, def |-> def, undef |-> undef, ok |-> ok, qmin |-> qmin]

MulDefs == CF + OF
MulUndef == SF + ZF + AF + PF

Mul8(ax, dx, v) ==
  LET p == Lo(ax) * v
  IN MD(p, dx, B(Hi(p) # 0, CF + OF), MulDefs, MulUndef, TRUE, FALSE)

IMul8(ax, dx, v) ==
  LET p == Ux(16, Sx(8, Lo(ax)) * Sx(8, v))
      sig == Hi(p) # (IF Msb(8, Lo(p)) = 1 THEN 255 ELSE 0)
  IN MD(p, dx, B(sig, CF + OF), MulDefs, MulUndef, TRUE, FALSE)

Mul16W(ax, dx, v) ==
  LET p == Mul16(ax, v)
  IN MD(p[2], p[1], B(p[1] # 0, CF + OF), MulDefs, MulUndef, TRUE, FALSE)

IMul16W(ax, dx, v) ==
  LET p == IMul16(ax, v)
      sig == p[1] # (IF Msb(16, p[2]) = 1 THEN 65535 ELSE 0)
  IN MD(p[2], p[1], B(sig, CF + OF), MulDefs, MulUndef, TRUE, FALSE)

DivErr(ax, dx) == MD(ax, dx, 0, 0, Status, FALSE, FALSE)

Div8(ax, dx, v) ==
  IF v = 0 \/ ax \div v > 255 THEN DivErr(ax, dx)
  ELSE MD((ax % v) * 256 + ax \div v, dx, 0, 0, Status, TRUE, FALSE)

\* truncating signed division of integers
TDiv(a, b) == LET q == (IF a < 0 THEN -a ELSE a) \div (IF b < 0 THEN -b ELSE b)
              IN IF (a < 0) # (b < 0) THEN -q ELSE q
TRem(a, b) == a - b * TDiv(a, b)

IDiv8(ax, dx, v) ==
  LET n == Sx(16, ax)  d == Sx(8, v) IN
  IF d = 0 THEN DivErr(ax, dx)
  ELSE LET q == TDiv(n, d)  r == TRem(n, d) IN
       IF q > 127 \/ q < -128 THEN DivErr(ax, dx)
       ELSE MD(Ux(8, r) * 256 + Ux(8, q), dx, 0, 0, Status, TRUE, q = -128)

Div16(ax, dx, v) ==
  IF v = 0 \/ dx >= v THEN DivErr(ax, dx)
  ELSE LET qr == DivMod32(<<dx, ax>>, v) IN MD(qr.q, qr.r, 0, 0, Status, TRUE, FALSE)

IDiv16(ax, dx, v) ==
  LET d == Sx(16, v)
      nneg == dx >= 32768
      mag == IF nneg THEN Neg32(<<dx, ax>>) ELSE <<dx, ax>>
      md == IF d < 0 THEN -d ELSE d
  IN IF d = 0 \/ mag[1] >= md THEN DivErr(ax, dx)
     ELSE LET qr == DivMod32(mag, md)
              qneg == nneg # (d < 0)
          IN IF (qneg /\ qr.q > 32768) \/ (~qneg /\ qr.q > 32767) THEN DivErr(ax, dx)
             ELSE MD(Ux(16, IF qneg THEN -qr.q ELSE qr.q),
                     Ux(16, IF nneg THEN -qr.r ELSE qr.r), 0, 0, Status, TRUE,
                     qneg /\ qr.q = 32768)

MulDiv(op, w, ax, dx, v) ==
  CASE op = "mul"  /\ w = 8  -> Mul8(ax, dx, v)
    [] op = "mul"  /\ w = 16 -> Mul16W(ax, dx, v)
    [] op = "imul" /\ w = 8  -> IMul8(ax, dx, v)
    [] op = "imul" /\ w = 16 -> IMul16W(ax, dx, v)
    [] op = "div"  /\ w = 8  -> Div8(ax, dx, v)
    [] op = "div"  /\ w = 16 -> Div16(ax, dx, v)
    [] op = "idiv" /\ w = 8  -> IDiv8(ax, dx, v)
    [] op = "idiv" /\ w = 16 -> IDiv16(ax, dx, v)

(***************************************************************************)
(* Decimal adjusts and sign extensions (8086 Family User's Manual          *)
(* pseudo-code).  Result [ax, dx, fl, def, undef].                         *)
(***************************************************************************)
AJ(ax, dx, fl, def, undef) == [ax |-> ax, dx |-> dx, fl |-> fl, def |-> def, undef |-> undef]

Adjust(op, ax, dx, f) ==
  LET al == Lo(ax)  ah == Hi(ax)
      af == FlagSet(f, AF)  cf == FlagSet(f, CF)
  IN CASE op = "aaa" ->
            LET adj == (al % 16 > 9) \/ af
                nal == (IF adj THEN al + 6 ELSE al) % 16
                nah == IF adj THEN (ah + 1) % 256 ELSE ah
            IN AJ(nah * 256 + nal, dx, B(adj, AF + CF), AF + CF, OF + SF + ZF + PF)
       [] op = "aas" ->
            LET adj == (al % 16 > 9) \/ af
                nal == (IF adj THEN al - 6 ELSE al) % 16
                nah == IF adj THEN (ah - 1) % 256 ELSE ah
            IN AJ(nah * 256 + nal, dx, B(adj, AF + CF), AF + CF, OF + SF + ZF + PF)
       [] op = "daa" ->
            LET a1 == (al % 16 > 9) \/ af
                al1 == IF a1 THEN (al + 6) % 256 ELSE al
                a2 == (al1 > 159) \/ cf
                al2 == IF a2 THEN (al1 + 96) % 256 ELSE al1
            IN AJ(ah * 256 + al2, dx, B(a1, AF) + B(a2, CF) + SZP(8, al2),
                  AF + CF + SF + ZF + PF, OF)
       [] op = "das" ->
            LET a1 == (al % 16 > 9) \/ af
                al1 == IF a1 THEN (al - 6) % 256 ELSE al
                a2 == (al1 > 159) \/ cf
                al2 == IF a2 THEN (al1 - 96) % 256 ELSE al1
            IN AJ(ah * 256 + al2, dx, B(a1, AF) + B(a2, CF) + SZP(8, al2),
                  AF + CF + SF + ZF + PF, OF)
       [] op = "aam" ->
            LET nal == al % 10  nah == al \div 10
            IN AJ(nah * 256 + nal, dx, SZP(8, nal), SF + ZF + PF, OF + AF + CF)
       [] op = "aad" ->
            LET nal == (ah * 10 + al) % 256
            IN AJ(nal, dx, SZP(8, nal), SF + ZF + PF, OF + AF + CF)
       [] op = "cbw" -> AJ(Msb(8, al) * 65280 + al, dx, 0, 0, 0)
       [] op = "cwd" -> AJ(ax, Msb(16, ax) * 65535, 0, 0, 0)

\* DAA/DAS, second reading: the manual's prose promises a valid packed-decimal result for valid
\* packed-decimal operands, which the literal pseudo-code above does not deliver when the +-6 step
\* wraps the byte (61h + 99h).  The hardware (and every later Intel manual) tests the ORIGINAL AL
\* against 99h for the high-digit correction.  Both readings are accepted (DESIGN.md 7.4).
AdjustHw(op, ax, dx, f) ==
  LET al == Lo(ax)  ah == Hi(ax)
      af == FlagSet(f, AF)  cf == FlagSet(f, CF)
      a1 == (al % 16 > 9) \/ af
      a2 == (al > 153) \/ cf
  IN CASE op = "daa" ->
            LET al1 == IF a1 THEN (al + 6) % 256 ELSE al
                al2 == IF a2 THEN (al1 + 96) % 256 ELSE al1
            IN AJ(ah * 256 + al2, dx, B(a1, AF) + B(a2, CF) + SZP(8, al2), AF + CF + SF + ZF + PF, OF)
       [] op = "das" ->
            LET al1 == IF a1 THEN (al - 6) % 256 ELSE al
                c1 == cf \/ (a1 /\ al < 6)
                al2 == IF a2 THEN (al1 - 96) % 256 ELSE al1
            IN AJ(ah * 256 + al2, dx, B(a1, AF) + B(a2 \/ c1, CF) + SZP(8, al2), AF + CF + SF + ZF + PF, OF)
       [] OTHER -> Adjust(op, ax, dx, f)

AdjustAlts(op, ax, dx, f) == {Adjust(op, ax, dx, f), AdjustHw(op, ax, dx, f)}

(***************************************************************************)
(* Conditions                                                              *)
(***************************************************************************)
Canon(mn) ==
  CASE mn = "jnbe" -> "ja"  [] mn = "jnb" -> "jae" [] mn = "jnae" -> "jb"
    [] mn = "jna" -> "jbe"  [] mn = "jz" -> "je"   [] mn = "jnle" -> "jg"
    [] mn = "jnl" -> "jge"  [] mn = "jnge" -> "jl" [] mn = "jng" -> "jle"
    [] mn = "jnz" -> "jne"  [] mn = "jpo" -> "jnp" [] mn = "jpe" -> "jp"
    [] mn = "loopz" -> "loope" [] mn = "loopnz" -> "loopne"
    [] OTHER -> mn

\* Intel-defined predicate over the flag word (canonical mnemonics)
Cond(mn, f) ==
  LET c == FlagSet(f, CF)  z == FlagSet(f, ZF)  s == FlagSet(f, SF)
      o == FlagSet(f, OF)  p == FlagSet(f, PF)
  IN CASE mn = "jmp" -> TRUE
       [] mn = "ja"  -> ~c /\ ~z     [] mn = "jbe" -> c \/ z
       [] mn = "jae" -> ~c           [] mn = "jb"  -> c
       [] mn = "jnc" -> ~c           [] mn = "jc"  -> c
       [] mn = "je"  -> z            [] mn = "jne" -> ~z
       [] mn = "jg"  -> ~z /\ (s = o) [] mn = "jle" -> z \/ (s # o)
       [] mn = "jge" -> s = o        [] mn = "jl"  -> s # o
       [] mn = "jo"  -> o            [] mn = "jno" -> ~o
       [] mn = "jp"  -> p            [] mn = "jnp" -> ~p
       [] mn = "js"  -> s            [] mn = "jns" -> ~s

IsLoop(mn) == mn \in {"loop", "loope", "loopne"}
\* LOOP family: cx is the value AFTER the decrement
LoopTaken(mn, cx, f) ==
  CASE mn = "loop"   -> cx # 0
    [] mn = "loope"  -> cx # 0 /\ FlagSet(f, ZF)
    [] mn = "loopne" -> cx # 0 /\ ~FlagSet(f, ZF)

CondMnemonics == {"ja","jbe","jae","jb","jnc","jc","je","jne","jg","jle","jge","jl",
                  "jo","jno","jp","jnp","js","jns"}
Complement(mn) ==
  CASE mn = "ja" -> "jbe" [] mn = "jbe" -> "ja" [] mn = "jae" -> "jb" [] mn = "jb" -> "jae"
    [] mn = "jnc" -> "jc" [] mn = "jc" -> "jnc" [] mn = "je" -> "jne" [] mn = "jne" -> "je"
    [] mn = "jg" -> "jle" [] mn = "jle" -> "jg" [] mn = "jge" -> "jl" [] mn = "jl" -> "jge"
    [] mn = "jo" -> "jno" [] mn = "jno" -> "jo" [] mn = "jp" -> "jnp" [] mn = "jnp" -> "jp"
    [] mn = "js" -> "jns" [] mn = "jns" -> "js"

=============================================================================
