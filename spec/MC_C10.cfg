SPECIFICATION Spec
CONSTANT Gen = FALSE
INVARIANT C10Enabled
INVARIANT C11SpellingFree
INVARIANT ShapeCounts
CHECK_DEADLOCK FALSE
