-------------------------------- MODULE Macro --------------------------------
(***************************************************************************)
(* Macros (syntax.md, "macro definition" / "macro use"), C13.              *)
(*                                                                         *)
(* A macro is [name, params (sequence of names), body (sequence of units)].*)
(* A unit is an instruction written as a token sequence [k:"ins", toks] or *)
(* a use of a macro [k:"use", name, args] where name is a token (so that a *)
(* macro passed by name can be used) and args is a sequence of token       *)
(* sequences.  Expanding a use writes the body in place with every token   *)
(* that IS a parameter (whole word, never a part of a longer word)         *)
(* replaced by the tokens of the corresponding argument, then expands the  *)
(* uses the body contains.  A macro that is (transitively) used while it   *)
(* is being expanded is recursion; an unknown name or a wrong number of    *)
(* arguments cannot be expanded either.                                    *)
(*                                                                         *)
(* Expand yields [err, code]: err = "" and code = the sequence of          *)
(* instructions (token sequences) to be written in place, or err # "".     *)
(***************************************************************************)
EXTENDS Integers, Sequences, FiniteSets

RECURSIVE ConcatAll(_)
ConcatAll(ss) == IF ss = << >> THEN << >> ELSE Head(ss) \o ConcatAll(Tail(ss))

Lookup(lib, n) == IF \E j \in 1 .. Len(lib) : lib[j].name = n
                  THEN lib[CHOOSE j \in 1 .. Len(lib) : lib[j].name = n /\ \A i \in j + 1 .. Len(lib) : lib[i].name # n]
                  ELSE [name |-> "", params |-> << >>, body |-> << >>]       \* later definitions replace earlier ones

ParamIndex(params, tok) == IF \E j \in 1 .. Len(params) : params[j] = tok THEN CHOOSE j \in 1 .. Len(params) : params[j] = tok ELSE 0

\* whole-token substitution
SubstToks(toks, params, args) ==
  ConcatAll([j \in 1 .. Len(toks) |-> IF ParamIndex(params, toks[j]) # 0 THEN args[ParamIndex(params, toks[j])] ELSE <<toks[j]>>])

SubstUnit(u, params, args) ==
  IF u.k = "ins" THEN [u EXCEPT !.toks = SubstToks(u.toks, params, args)]
  ELSE LET nm == SubstToks(<<u.name>>, params, args)
       IN [k |-> "use", name |-> IF Len(nm) = 1 THEN nm[1] ELSE "?", args |-> [j \in 1 .. Len(u.args) |-> SubstToks(u.args[j], params, args)]]

\* expansion of one use; active = names of the macros being expanded (recursion guard)
RECURSIVE Expand(_, _, _, _), ExpandUnits(_, _, _, _)
Expand(lib, name, args, active) ==
  LET m == Lookup(lib, name) IN
  IF m.name = "" THEN [err |-> "unknown", code |-> << >>]
  ELSE IF name \in active THEN [err |-> "recursive", code |-> << >>]
  \* too few arguments cannot be expanded; the property is silent on surplus arguments, they are ignored
  ELSE IF Len(args) < Len(m.params) THEN [err |-> "arity", code |-> << >>]
  ELSE ExpandUnits(lib, [j \in 1 .. Len(m.body) |-> SubstUnit(m.body[j], m.params, args)], 1, active \cup {name})
ExpandUnits(lib, units, k, active) ==
  IF k > Len(units) THEN [err |-> "", code |-> << >>]
  ELSE LET u == units[k]
           first == IF u.k = "ins" THEN [err |-> "", code |-> <<u.toks>>] ELSE Expand(lib, u.name, u.args, active)
       IN IF first.err # "" THEN first
          ELSE LET rest == ExpandUnits(lib, units, k + 1, active)
               IN IF rest.err # "" THEN rest ELSE [err |-> "", code |-> first.code \o rest.code]

(***************************************************************************)
(* The use graph and its cycles (independent statement of "recursive")     *)
(***************************************************************************)
\* names a macro's body uses literally (a use through a parameter depends on the argument)
DirectUses(m) == {m.body[j].name : j \in {i \in 1 .. Len(m.body) : m.body[i].k = "use" /\ ParamIndex(m.params, m.body[i].name) = 0}}
Names(lib) == {lib[j].name : j \in 1 .. Len(lib)}
RECURSIVE Reach(_, _, _)
Reach(lib, from, seen) ==
  LET nxt == UNION {DirectUses(Lookup(lib, n)) : n \in from} \cap Names(lib) IN
  IF nxt \subseteq seen THEN seen ELSE Reach(lib, nxt \ seen, seen \cup nxt)
OnCycle(lib, n) == n \in Reach(lib, {n}, {})
\* depth of the use tree below a macro in an acyclic library
RECURSIVE Depth(_, _, _)
Depth(lib, n, fuel) == IF fuel = 0 THEN 0
                       ELSE LET us == DirectUses(Lookup(lib, n)) \cap Names(lib)
                            IN IF us = {} THEN 1 ELSE 1 + (CHOOSE d \in {Depth(lib, u, fuel - 1) : u \in us} : \A e \in {Depth(lib, u, fuel - 1) : u \in us} : e <= d)
=============================================================================
