SPECIFICATION Spec
CONSTANT MaxCount = 255
CONSTANT AxVals = {0}
INVARIANT ArithChar
INVARIANT RippleAgree
INVARIANT RippleLemma
INVARIANT UnaryLaws
INVARIANT DeviationsAreViolations
CHECK_DEADLOCK FALSE
