SPECIFICATION Spec
INVARIANT ArithChar
INVARIANT RippleAgree
INVARIANT RippleLemma
INVARIANT UnaryLaws
CHECK_DEADLOCK FALSE
