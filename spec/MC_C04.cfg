SPECIFICATION SpecC04
CONSTANT MaxDepth = 0
CONSTANT MaxCX = 0
CONSTANT Gen = FALSE
INVARIANT C04Addressing
INVARIANT C04ByteRegs
CHECK_DEADLOCK FALSE
