SPECIFICATION SpecLaws
CONSTANT MaxBlocks = 0
CONSTANT MaxScript = 0
CONSTANT MaxSteps = 0
CONSTANT Gen = FALSE
INVARIANT C17Laws
INVARIANT C18Laws
CHECK_DEADLOCK FALSE
