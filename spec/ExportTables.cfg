
