SPECIFICATION Spec
CONSTANT MaxMacros = 3
CONSTANT MaxUnits = 2
CONSTANT Gen = FALSE
INVARIANT C13Laws
INVARIANT C13Substitution
CHECK_DEADLOCK FALSE
