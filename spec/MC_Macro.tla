------------------------------ MODULE MC_Macro ------------------------------
(***************************************************************************)
(* Bounded model of macro libraries (C13).  A library is built step by     *)
(* step (start a macro, add units, close it), then one use site is chosen. *)
(* Parameter names are prefixes / extensions of each other and of body     *)
(* tokens (r / rx, t / tt / ttt), macros use other macros literally and    *)
(* through a parameter (macro passed by name), use graphs may be cyclic.   *)
(* Exhaustive for small bounds, `-simulate` for larger ones.  With Gen the *)
(* finished library, the use and its reference expansion (or the error)    *)
(* are printed as a REPLAY line for the harness.                           *)
(***************************************************************************)
EXTENDS Macro, Json, TLC

CONSTANTS MaxMacros, MaxUnits, Gen

VARIABLES lib, cur, use, stage
vars == <<lib, cur, use, stage>>

MacroNames == {"ma", "mb", "mc"}
RegToks == {"ax", "bx"}
LabToks == {"t", "tt", "ttt"}
\* every macro takes three parameters (surplus arguments of a use are ignored); their names are prefixes / extensions of each other and of body tokens
ParamSets == {<<"r", "rx", "r_">>, <<"rx", "r", "r1">>, <<"tt", "t", "t2">>, <<"r", "t", "r_1">>, <<"k", "r", "t">>, <<"t", "rx", "r">>}

\* arguments: registers, labels, numbers, bracketed memory operands (several tokens), segment registers
ArgToks == {<<"ax">>, <<"bx">>, <<"cx">>, <<"t">>, <<"tt">>, <<"ttt">>, <<"word", "[", "bx", "]">>, <<"word", "[", "bp", ",", "si", ",", "2", "]">>,
            <<"7">>, <<"40000">>, <<"0xFFFF">>, <<"0b1000000000000000">>,
            \* a byte memory operand, a segment register.  (The grammar also takes `byte <label>` / `word <label>` as an
            \* argument and substitutes the bare label name; C13 lists identifier, register, number and bracketed-memory
            \* arguments only, so that form is not judged: DESIGN section 8.)
            <<"byte", "[", "si", "]">>, <<"es">>,
            \* bracketed memory operands with a segment override
            <<"word", "es", "[", "bx", "]">>, <<"byte", "ss", "[", "si", ",", "3", "]">>, <<"word", "cs", "[", "bp", ",", "di", "]">>}
RegParams == {"r", "rx", "r_", "r1", "r_1"}
\* macros are named in a fixed order; a body may use the macros defined so far (most uses), itself or the
\* next one (cycles, forward references) and a macro passed in through parameter k
NameSeq == <<"ma", "mb", "mc">>
RegToksAll == {"ax", "bx", "cx", "dx", "si", "di"}
UnitsFor(params, defined, selfnext) ==
  LET ps == {params[j] : j \in 1 .. Len(params)}
      mem1 == <<"word", "[", "bx", "]">>
  IN {[k |-> "ins", toks |-> <<"inc", x>>] : x \in RegToksAll \cup (ps \cap RegParams)}
     \cup {[k |-> "ins", toks |-> <<"jmp", y>>] : y \in LabToks}
     \* a parameter in an unsigned constant position (logic immediate, shift count) and in a signed one
     \cup {[k |-> "ins", toks |-> <<"and", "dx", ",", x>>] : x \in ps \cap RegParams}
     \cup {[k |-> "ins", toks |-> <<"mov", "cx", ",", x>>] : x \in ps \cap RegParams}
     \cup {[k |-> "use", name |-> n, args |-> <<a, b, c>>] : n \in defined,
             a \in {<<"bx">>, <<params[1]>>}, b \in {<<"t">>, <<params[2]>>}, c \in {mem1, <<params[3]>>}}
     \cup {[k |-> "use", name |-> n, args |-> <<<<params[1]>>, <<"tt">>, c>>] : n \in selfnext \cup (ps \cap {"k"}), c \in {mem1, <<params[3]>>}}

Init == lib = << >> /\ cur = << >> /\ use = << >> /\ stage = "build"

StartMacro ==
  /\ stage = "build" /\ cur = << >> /\ Len(lib) < MaxMacros
  /\ \E ps \in ParamSets : cur' = [name |-> NameSeq[Len(lib) + 1], params |-> ps, body |-> << >>]
  /\ UNCHANGED <<lib, use, stage>>
AddUnit ==
  /\ stage = "build" /\ cur # << >> /\ Len(cur.body) < MaxUnits
  /\ \E u \in UnitsFor(cur.params, Names(lib), {cur.name} \cup (IF Len(lib) + 2 <= 3 THEN {NameSeq[Len(lib) + 2]} ELSE {})) :
       cur' = [cur EXCEPT !.body = Append(@, u)]
  /\ UNCHANGED <<lib, use, stage>>
CloseMacro ==
  \* (a body may be empty: the macro then stands for nothing)
  /\ stage = "build" /\ cur # << >>
  /\ lib' = Append(lib, cur) /\ cur' = << >>
  /\ UNCHANGED <<use, stage>>
ChooseUse ==
  /\ stage = "build" /\ cur = << >> /\ lib # << >>
  /\ \E n \in Names(lib) \cup {"mz"} :
       \E a1 \in ArgToks \cup {<<n2>> : n2 \in Names(lib)}, a2 \in {<<"t">>, <<"tt">>, <<"cx">>, <<"word", "[", "bx", "]">>},
          a3 \in {<<"bx">>, <<"ttt">>, <<"word", "[", "bp", ",", "si", ",", "2", "]">>} :
            use' = [name |-> n, args |-> <<a1, a2, a3>>]
  /\ stage' = "done"
  /\ UNCHANGED <<lib, cur>>

Next == StartMacro \/ AddUnit \/ CloseMacro \/ ChooseUse
Spec == Init /\ [][Next]_vars

Result == Expand(lib, use.name, use.args, {})

\* no unit uses a macro through a parameter: the use graph is then static
Static == \A j \in 1 .. Len(lib) : \A i \in 1 .. Len(lib[j].body) :
            lib[j].body[i].k = "use" => ParamIndex(lib[j].params, lib[j].body[i].name) = 0
\* every literal use names a defined macro with enough arguments
Closed == \A j \in 1 .. Len(lib) : \A i \in 1 .. Len(lib[j].body) :
            LET u == lib[j].body[i] IN
            (u.k = "use" /\ ParamIndex(lib[j].params, u.name) = 0) =>
               u.name \in Names(lib) /\ Len(u.args) >= Len(Lookup(lib, u.name).params)

RECURSIVE CountIns(_, _, _)
\* number of instructions a macro expands to in an acyclic, static, closed library
CountIns(l, n, fuel) ==
  IF fuel = 0 THEN 0
  ELSE LET m == Lookup(l, n) IN
       LET f[j \in 0 .. Len(m.body)] == IF j = 0 THEN 0
                                         ELSE f[j - 1] + (IF m.body[j].k = "ins" THEN 1 ELSE CountIns(l, m.body[j].name, fuel - 1))
       IN f[Len(m.body)]

C13Laws ==
  stage = "done" =>
    LET r == Result
        reach == Reach(lib, {use.name}, {use.name})
    IN /\ (use.name \notin Names(lib) => r.err = "unknown")
       \* recursion: in a static, closed library an error arises exactly when a macro reachable from the use lies on a cycle
       /\ ((Static /\ Closed /\ use.name \in Names(lib)) =>
             (r.err = "recursive") = (\E n \in reach : OnCycle(lib, n)))
       /\ ((Static /\ Closed /\ use.name \in Names(lib) /\ ~\E n \in reach : OnCycle(lib, n)) =>
             /\ r.err = ""
             /\ Len(r.code) = CountIns(lib, use.name, MaxMacros + 1)
             /\ Depth(lib, use.name, MaxMacros + 1) <= Len(lib))
       \* whole-word substitution: no parameter of the used macro survives unless an argument put it there,
       \* and longer words containing a parameter name are untouched
       /\ (r.err = "" /\ use.name \in Names(lib) =>
             \A i \in 1 .. Len(r.code) : Len(r.code[i]) >= 2 /\ r.code[i][1] \in {"inc", "jmp", "and", "mov"})
       /\ r.err \in {"", "unknown", "recursive", "arity"}

\* direct statements of the substitution rule on hand-written cases
C13Substitution ==
  LET l1 == << [name |-> "ma", params |-> <<"t", "r">>, body |-> <<[k |-> "ins", toks |-> <<"jmp", "tt">>], [k |-> "ins", toks |-> <<"jmp", "t">>],
                                                                   [k |-> "ins", toks |-> <<"inc", "r">>]>>] >>
      l2 == << [name |-> "ma", params |-> <<"r">>, body |-> <<[k |-> "ins", toks |-> <<"inc", "r">>]>>],
               [name |-> "mb", params |-> <<"k", "r">>, body |-> <<[k |-> "use", name |-> "k", args |-> <<<<"r">>>>], [k |-> "ins", toks |-> <<"inc", "bx">>]>>] >>
      l3 == << [name |-> "ma", params |-> <<"r">>, body |-> <<[k |-> "use", name |-> "mb", args |-> <<<<"r">>>>]>>],
               [name |-> "mb", params |-> <<"r">>, body |-> <<[k |-> "use", name |-> "ma", args |-> <<<<"r">>>>]>>] >>
  IN /\ Expand(l1, "ma", <<<<"ttt">>, <<"bx">>>>, {}) = [err |-> "", code |-> <<<<"jmp", "tt">>, <<"jmp", "ttt">>, <<"inc", "bx">>>>]
     /\ Expand(l2, "mb", <<<<"ma">>, <<"ax">>>>, {}) = [err |-> "", code |-> <<<<"inc", "ax">>, <<"inc", "bx">>>>]
     /\ Expand(l2, "mb", <<<<"mb">>, <<"ax">>>>, {}).err = "recursive"
     /\ Expand(l3, "ma", <<<<"ax">>>>, {}).err = "recursive"
     /\ Expand(l2, "mq", <<<<"ax">>>>, {}).err = "unknown"
     \* a macro may stand for nothing and may take no parameters; using it twice side by side is not recursion
     /\ LET l4 == << [name |-> "me", params |-> <<"r">>, body |-> << >>],
                     [name |-> "mf", params |-> << >>, body |-> <<[k |-> "use", name |-> "me", args |-> <<<<"ax">>>>], [k |-> "ins", toks |-> <<"inc", "bx">>],
                                                                  [k |-> "use", name |-> "me", args |-> <<<<"ax">>>>]>>] >>
        IN /\ Expand(l4, "me", <<<<"ax">>>>, {}) = [err |-> "", code |-> << >>]
           /\ Expand(l4, "mf", << >>, {}) = [err |-> "", code |-> <<<<"inc", "bx">>>>]

Emit == (Gen /\ stage = "done") => PrintT(<<"REPLAY", ToJson([lib |-> lib, use |-> use, err |-> Result.err, code |-> Result.code])>>)
=============================================================================
