------------------------------ MODULE TraceRun ------------------------------
(***************************************************************************)
(* Trace specification at driver grain.  One trace file = a concatenation  *)
(* of runs of the real `emulator_8086` binary (built with the trace hook); *)
(* each run starts with a `program` event written by the harness (the      *)
(* program's abstract syntax, its stdin script, the -i flag), followed by  *)
(* the hook's events in the order the driver produced them, and ends with  *)
(* a `stdout` event (captured bytes, exit status, watchdog verdict).       *)
(*                                                                         *)
(* Every event must be one the Driver specification allows in the current  *)
(* driver state; the machine state after every step / interrupt service,   *)
(* the prompt banners, the messages citing source lines, the loaded memory *)
(* image and the complete stdout are compared.  A mismatch appends a       *)
(* verdict and the state is resynchronised to what was logged.             *)
(***************************************************************************)
EXTENDS TraceCommon, Driver, Asm, Json, IOUtils

Rec == ndJsonDeserialize(IOEnv.TRACE)

VARIABLES run,   \* [P, C, L, d, msg, run (number)] of the current run, or << >> before the first
          l

Verdict(v) == TLCSet(1, Append(TLCGet(1), v))
V(tag, why) == Verdict([l |-> l, ev |-> Rec[l].ev, kind |-> "MISMATCH", dev |-> "", tag |-> tag, why |-> why])
Check(cond, tag, why) == IF cond THEN TRUE ELSE V(tag, why)

HasKey(r, k) == k \in DOMAIN r

(***************************************************************************)
(* event handlers: each yields the next `run` record                       *)
(***************************************************************************)
NewRun(ev) ==
  LET P == [data |-> ev.data, items |-> ev.items, interp |-> ev.interp, stdin |-> ev.stdin]
      L == Load(P)
      C == Link(Compile(P), L.labels)
      \* why the program must be refused with a diagnostic ("" = it must run)
      refuse == IF ~WellFormed(P, L.labels) THEN "illformed" ELSE IF L.over THEN "over" ELSE ""
  IN [P |-> P, C |-> C, L |-> L, d |-> [Boot(P, C, L.mem) EXCEPT !.phase = "boot"], msg |-> << >>, n |-> ev.n,
      refuse |-> refuse,
      \* source lines a diagnostic may cite (set of [line, text]); empty = not known to the harness
      offend |-> IF "offend" \in DOMAIN ev THEN {ev.offend[j] : j \in 1 .. Len(ev.offend)} ELSE {},
      sawpos |-> FALSE, pos |-> << >>,
      \* whether the re-invocations of the repeated instruction being executed are preceded by prompts: "" not seen yet
      reppol |-> ""]

\* a message citing a source line is pending after PRINT / INT 0 / INT 3 / unsupported AH
Pending(kind, e, idx) == <<kind, idx, e.line, IF kind = "int3" THEN "" ELSE e.text>>

\* a console service that the program asked for (a supported INT 10h / INT 21h function) must run before anything else
\* happens: C18 owns the verdict (the run going on or ending without it is otherwise only seen as a control mismatch)
\* ... and an unsupported function must be reported (C18 says so as well as C16, which owns the wording and the line cited)
BadAhReported(r) == Check(r.msg = << >> \/ r.msg[1] # "badah", "int", <<"an unsupported AH value was not reported; pending", r.msg>>)
ServiceRan(r) == Check(r.d.phase # "service", "int", <<"the service", r.d.svc, "was due and did not run; index", r.d.idx>>)

OnAsm(r, ev) ==
  /\ Check(r.refuse = "", "reject-" \o r.refuse, <<"the program was accepted; it must be refused:", r.refuse>>)
  /\ Check(r.d.phase = "boot", "order", <<"asm in phase", r.d.phase>>)
  /\ Check(Len(ev.code) = Len(r.C.code), "asm", <<"instructions emitted", Len(ev.code), "source instructions", Len(r.C.code)>>)
  /\ Check(Len(ev.data) = Len(r.P.data), "asm", <<"data lines emitted", Len(ev.data), "data directives in the source", Len(r.P.data)>>)
  /\ run' = [r EXCEPT !.d.phase = "load"]

OnLoaded(r, ev) ==
  LET obs == MkMem(ev.mem)
      exp == r.L.mem
      addrs == DOMAIN obs \cup DOMAIN exp
      bad == {a \in addrs : (IF a \in DOMAIN obs THEN obs[a] ELSE 0) # (IF a \in DOMAIN exp THEN exp[a] ELSE 0)}
  IN /\ Check(r.d.phase = "load", "order", <<"loaded in phase", r.d.phase>>)
     /\ Check(bad = {}, "load", [addresses |-> bad, expected |-> [a \in bad |-> IF a \in DOMAIN exp THEN exp[a] ELSE 0]])
     /\ Check(ev.regs = InitRegs /\ ev.flags = InitFlags, "load", <<"initial registers", ev.regs, ev.flags>>)
     /\ Check(ev.start = r.d.idx, "control", <<"start index", ev.start, "expected", r.d.idx>>)
     /\ run' = [r EXCEPT !.d.phase = "fetch", !.d.idx = ev.start,
                         !.d.m = [regs |-> ev.regs, flags |-> ev.flags, mem |-> obs, bg |-> -1, stack |-> << >>]]

OnPrompt(r, ev) ==
  LET d == r.d
      due == PromptDue(r.P, r.C, d)
      e == IF ev.idx < Len(r.C.code) THEN r.C.code[ev.idx + 1] ELSE Entry(HltIns, 0, "", << >>)
  IN /\ ServiceRan(r)
     /\ Check(d.phase = "fetch" /\ due, "prompt", <<"unexpected prompt: phase", d.phase, "stepping", due>>)
     /\ Check(ev.idx = d.idx, "control", <<"prompt for index", ev.idx, "expected", d.idx>>)
     /\ Check(ev.line = e.line /\ ev.text = e.text, "banner", <<"prompt names line", ev.line, ev.text, "instruction is on line", e.line, e.text>>)
     /\ Check(ev.tf = FlagSet(d.m.flags, TF), "banner", <<"trap flag shown", ev.tf>>)
     /\ run' = [r EXCEPT !.d = [Emit(d, "stepbanner", Banner(e, FlagSet(d.m.flags, TF))) EXCEPT !.phase = "prompt", !.after = "invoke", !.idx = ev.idx]]

OnCmd(r, ev) ==
  LET d == r.d
      have == d.stdin # << >>
      c == IF ev.eof \/ ~have THEN [cls |-> "eof"] ELSE d.stdin[1]
  IN /\ Check(d.phase = "prompt", "prompt", <<"command read in phase", d.phase>>)
     /\ Check(ev.eof = ~have, "prompt", <<"end of input seen", ev.eof, "script lines left", Len(d.stdin)>>)
     /\ Check(ev.eof \/ ~have \/ (ev.raw = d.stdin[1].raw /\ d.stdin[1].cls # "unreadable"), "prompt", <<"line read", ev.raw>>)
     /\ run' = [r EXCEPT !.d = [PromptCmd([d EXCEPT !.phase = "prompt"], c) EXCEPT !.stdin = IF have THEN Tail(d.stdin) ELSE d.stdin]]

OnStep(r, ev) ==
  LET d == r.d
      refused == r.refuse # ""
      due == PromptDue(r.P, r.C, d)
      ins == InsAt(r.C, r.L.labels, ev.idx)
      evx == [idx |-> ev.idx, ast |-> ins, out |-> ev.out, arg |-> ev.arg, regs |-> ev.regs, flags |-> ev.flags,
              memw |-> ev.memw, stack |-> ev.stack]
      alts == ExecAlts(d.m, ins, ev.idx)
      ok == \E x \in alts : Matches(d.m, evx, x)
      dev == IF ok THEN "" ELSE ExplainingDev(d.m, evx)
      m2 == [d.m EXCEPT !.regs = ev.regs, !.flags = ev.flags, !.mem = MkMem(ev.memw) @@ d.m.mem, !.stack = ev.stack]
      d2 == Dispatch(r.C, [d EXCEPT !.idx = ev.idx, !.phase = "fetch"], m2, <<ev.out, ev.arg>>)
      e == IF ev.idx < Len(r.C.code) THEN r.C.code[ev.idx + 1] ELSE Entry(HltIns, 0, "", << >>)
      msg == CASE ev.out = "PRINT" -> Pending("print", e, ev.idx)
               [] ev.out = "INT" /\ ev.arg = 0 -> Pending("int0", e, ev.idx)
               [] ev.out = "INT" /\ ev.arg = 3 -> Pending("int3", e, ev.idx)
               [] ev.out = "INT" /\ ev.arg \in {16, 33} /\ ~SupportedAh(ev.arg, Hi(ev.regs["ax"])) -> Pending("badah", e, ev.idx)
               [] OTHER -> << >>
  IN \* an instruction of a program that must be refused: its tree may not even have a meaning (a data operand naming a
     \* code label): nothing of the model is evaluated on it, the run is left to be reported by its later events too
     IF refused
     THEN /\ Check(FALSE, "reject-" \o r.refuse, <<"an instruction of a program that must be refused was executed", ev.line>>)
          /\ run' = [r EXCEPT !.d = [d EXCEPT !.phase = "done", !.outfree = TRUE, !.why = "unexpected"]]
     ELSE
     /\ ServiceRan(r) /\ BadAhReported(r)
     \* a prompt must have preceded this invocation while stepping (optional before re-invoking a REP line)
     /\ Check(d.phase = "invoke" \/ (d.phase = "fetch" /\ (~due \/ d.rep)), "prompt",
              <<"instruction invoked in phase", d.phase, "prompt due", due>>)
     /\ Check(~refused, "reject-" \o r.refuse, <<"an instruction of a program that must be refused was executed", ev.line>>)
     /\ Check(ev.idx = d.idx, "control", <<"executed index", ev.idx, ev.line, "expected index", d.idx>>)
     /\ Check(ev.out \in Outcomes, "total", <<"outcome", ev.out, ev.err>>)
     /\ IF ok THEN TRUE
        ELSE Verdict([l |-> l, ev |-> "step", kind |-> IF dev = "" THEN "MISMATCH" ELSE "KNOWN", dev |-> dev,
                      tag |-> "step", why |-> Explain(d.m, evx, Exec(d.m, ins, ev.idx))])
     \* where the run goes on is the driver's business (C08): an answer of the interpreter that no alternative of the
     \* model gives for this instruction in this state (an error for a valid CALL, a jump not taken, a wrong target) is
     \* reported under `control` as well; the run would otherwise just end early or go on somewhere else unnoticed
     /\ IF ok \/ dev # "" \/ (\E x \in alts : OutMatch(evx, x)) THEN TRUE
        ELSE V("control", <<"the interpreter answered", ev.out, ev.arg, ev.err, "for", ev.line, "at index", ev.idx,
                            "the specification allows", UNION {x.outs : x \in alts}>>)
     \* ... and so are the return locations kept for the procedures that are running (C08): a call stack that no alternative
     \* of the model leaves is reported under `control` too -- the return that uses it would otherwise look right, because
     \* the state is resynchronised to what was logged (seeded change C08-q: return location masked to 16 bits)
     \* (a CALL or RET of a whole program that differs from the model in any other way -- a register, a flag, a memory
     \* byte -- is reported here as well: calls and returns are exercised in whole programs, not one by one)
     /\ IF ok \/ dev # "" \/ ((\E x \in alts : x.stack = ev.stack) /\ ins.cls \notin {"call", "ret"}) THEN TRUE
        ELSE V("control", <<"the call stack after", ev.line, "at index", ev.idx, "is", ev.stack,
                            "the specification allows", {x.stack : x \in alts}, "differences", Explain(d.m, evx, Exec(d.m, ins, ev.idx))>>)
     \* printing and the prompt never change the machine (C17, C20): a step that does not start from the state the
     \* previous step left, directly after a print statement or a prompt command, is theirs
     /\ IF ok \/ dev # "" \/ l = 1 THEN TRUE
        ELSE IF Rec[l - 1].ev = "message" /\ Rec[l - 1].kind = "print"
             THEN V("printframe", <<"the instruction after a print statement did not start from the state before it:", Explain(d.m, evx, Exec(d.m, ins, ev.idx))>>)
        ELSE IF Rec[l - 1].ev = "cmd"
             THEN V("promptframe", <<"the instruction after a prompt did not start from the state before it:", Explain(d.m, evx, Exec(d.m, ins, ev.idx))>>)
        ELSE TRUE
     /\ Check(r.msg = << >>, "banner", <<"message not shown", r.msg>>)
     \* DESIGN 7.10: a prompt before every re-invocation of a repeated instruction, or before none of them -- not before
     \* some (seeded change C20-q: the re-invocation that finds CX = 0 lost its prompt, the others kept theirs)
     /\ Check(~(d.rep /\ due) \/ r.reppol = "" \/ (r.reppol = "yes") = (d.phase = "invoke"), "prompt",
              <<"prompts before the re-invocations of", ev.line, "at index", ev.idx, "so far:", r.reppol, "this one:", d.phase = "invoke">>)
     /\ run' = [r EXCEPT !.d = IF ev.out \in Outcomes THEN d2 ELSE [d EXCEPT !.phase = "done", !.outfree = TRUE], !.msg = msg,
                         !.reppol = IF ~(d.rep /\ due) THEN "" ELSE IF r.reppol # "" THEN r.reppol
                                    ELSE IF d.phase = "invoke" THEN "yes" ELSE "no"]

OnMessage(r, ev) ==
  /\ Check(r.msg # << >> /\ r.msg[1] = ev.kind /\ r.msg[2] = ev.idx, "banner", <<"unexpected message", ev.kind, ev.idx, "pending", r.msg>>)
  /\ Check(r.msg = << >> \/ (r.msg[3] = ev.line /\ r.msg[4] = ev.text), "banner",
           <<"message cites line", ev.line, ev.text, "instruction is on line", r.msg>>)
  /\ run' = [r EXCEPT !.msg = << >>]

OnInput(r, ev) ==
  LET d == r.d
      have == d.stdin # << >>
  IN /\ Check(d.phase = "service" /\ ReadsStdin(d.svc[1], d.svc[2]), "int", <<"input consumed in phase", d.phase, d.svc>>)
     /\ Check(ev.eof = ~have, "int", <<"end of input seen", ev.eof, "script lines left", Len(d.stdin)>>)
     /\ Check(ev.eof \/ ~have \/ (ev.raw = d.stdin[1].raw /\ d.stdin[1].cls # "unreadable"), "int", <<"line consumed", ev.raw>>)
     /\ UNCHANGED run

\* a stdin line could not be read as text: it must be the script's next line and be one that is not valid UTF-8
OnReadErr(r, ev) ==
  LET d == r.d
      bad == d.stdin # << >> /\ d.stdin[1].cls = "unreadable"
  IN IF ev.at = "prompt"
     THEN /\ Check(d.phase = "prompt", "prompt", <<"read error reported in phase", d.phase>>)
          /\ Check(bad, "prompt", <<"a readable line was reported as unreadable; script lines left", Len(d.stdin)>>)
          /\ run' = IF bad THEN [r EXCEPT !.d = [PromptCmd([d EXCEPT !.phase = "prompt"], d.stdin[1]) EXCEPT !.stdin = Tail(d.stdin)]] ELSE r
     ELSE /\ Check(d.phase = "service" /\ ReadsStdin(d.svc[1], d.svc[2]), "int", <<"read error reported in phase", d.phase>>)
          /\ Check(bad, "int", <<"a readable line was reported as unreadable; script lines left", Len(d.stdin)>>)
          /\ UNCHANGED run

OnInt(r, ev) ==
  LET d == r.d
      \* (a service that ran when none was due is reported by the first check; the model is then not consulted)
      d2 == IF d.phase = "service" THEN RunService(d) ELSE d
      obs == MkMem(ev.memw)
      addrs == (DOMAIN obs \cup DOMAIN d2.m.mem) \ d2.freemem
      po(a) == IF a \in DOMAIN obs THEN obs[a] ELSE Rd(d.m, a)
      bad == {a \in addrs : po(a) # Rd(d2.m, a)}
      regbad == {n \in RegNames : ev.regs[n] # d2.m.regs[n]}
  IN /\ Check(d.phase = "service" /\ d.svc = <<ev.n, ev.ah>>, "int", <<"service ran", ev.n, ev.ah, "phase", d.phase, d.svc>>)
     /\ Check(regbad = {} /\ ev.flags = d2.m.flags, "int", [regs |-> regbad, expected |-> [n \in regbad |-> d2.m.regs[n]], flags |-> ev.flags])
     /\ Check(bad = {}, "int", [mem |-> bad, expected |-> [a \in bad |-> Rd(d2.m, a)]])
     /\ run' = [r EXCEPT !.d = [d2 EXCEPT !.m = [d.m EXCEPT !.regs = ev.regs, !.flags = ev.flags, !.mem = obs @@ d.m.mem]]]

\* the position a diagnostic cites must be that of the offending token's line (C16)
OnDiagPos(r, ev) ==
  /\ Check(r.offend = {} \/ \E o \in r.offend : o.line = ev.line /\ o.text = ev.text, "diagpos",
           <<"diagnostic cites line", ev.line, ev.text, "the offending token is on", r.offend>>)
  /\ Check(r.offend = {} \/ \E o \in r.offend : o.line = ev.line /\ (o.col < 0 \/ o.col = ev.col), "diagpos",
           <<"diagnostic cites column", ev.col, "the offending token is at", r.offend>>)
  /\ run' = [r EXCEPT !.sawpos = TRUE, !.pos = <<ev.line, ev.col, ev.textb>>]

OnDiag(r, ev) ==
  /\ Check(r.refuse # "", "diag", <<"diagnostic for a valid program", ev.stage, ev.msg>>)
  /\ Check(ev.msg # "", "reject-" \o r.refuse, <<"empty diagnostic">>)
  /\ Check(r.offend = {} \/ r.sawpos, "diagpos", <<"the diagnostic cites no source position:", ev.msg>>)
  /\ Check(r.d.phase \in {"boot", "load"}, "reject-" \o r.refuse, <<"diagnostic after execution began, phase", r.d.phase>>)
  /\ run' = [r EXCEPT !.d.phase = "done", !.d.outfree = TRUE, !.d.why = "diag"]

OnExit(r, ev) ==
  LET d == r.d IN
  /\ ServiceRan(r) /\ BadAhReported(r)
  /\ Check(d.phase = "done" /\ (ev.why = "quit") = (d.why = "quit"), IF d.phase = "prompt" \/ ev.why = "quit" THEN "prompt" ELSE "control",
           <<"exit", ev.why, "in phase", d.phase, "expected end", d.why, "index", d.idx>>)
  /\ Check(r.msg = << >>, "banner", <<"message not shown", r.msg>>)
  /\ run' = [r EXCEPT !.d.phase = "done", !.d.why = IF d.phase = "done" THEN d.why ELSE "unexpected", !.msg = << >>]

IsPrefix(a, b) == Len(a) <= Len(b) /\ SubSeq(b, 1, Len(a)) = a
IsSuffix(a, b) == Len(a) <= Len(b) /\ SubSeq(b, Len(b) - Len(a) + 1, Len(b)) = a

\* one run of the binary with a command line other than `[-i] <source file>` (src/bin.rs): Driver!CmdLine says what
\* must happen; `ran` = the program in the file was executed, `prompts` = number of prompts shown
OnCmdline(ev) ==
  LET o == CmdLine(ev.argv) IN
  /\ Check(~ev.timeout, "hang", <<"the emulator did not terminate on the command line", ev.args>>)
  \* what the listed properties say (C15: ends by itself without aborting; C14/C20: nothing runs without a source,
  \* stepping is on exactly when -i / --interpreted is given)
  /\ Check(ev.timeout \/ ev.status \in {0, 1, 2}, "cmdline", <<"command line", ev.args, "exit status", ev.status>>)
  /\ Check(ev.timeout \/ (ev.ran <=> o.k = "run"), "cmdline", <<"command line", ev.args, "expected", o.k, "the program ran:", ev.ran>>)
  /\ Check(ev.timeout \/ ((ev.prompts > 0) <=> (o.k = "run" /\ o.interp)), "cmdline", <<"command line", ev.args, "prompts shown", ev.prompts, "expected", o>>)
  \* the exact status and wording of src/bin.rs: part of the specification, owned by no listed property (noted only)
  /\ Check(ev.timeout \/
           CASE o.k = "usage" -> ev.status # 0 /\ ev.bytes = << >>
             [] o.k = "info"  -> ev.status = 0
             [] o.k = "exit1" -> /\ ev.status = 1
                                 /\ IF o.exact THEN ev.bytes = o.out
                                    ELSE IsPrefix(o.out, ev.bytes) /\ IsSuffix(MsgReadErrorEnd, ev.bytes)
             [] o.k = "run"   -> ev.status = 0,
           "cmdline-wording", <<"command line", ev.args, "expected", o.k, "status", ev.status, "stdout", ev.bytes>>)
  /\ UNCHANGED run

\* first position at which a and b differ (Len + 1 of the shorter one if it is a prefix of the other), by bisection
RECURSIVE FirstDiffIn(_, _, _, _)
FirstDiffIn(a, b, lo, hi) ==
  IF lo >= hi THEN lo
  ELSE LET mid == (lo + hi) \div 2 IN
       IF mid <= Len(a) /\ mid <= Len(b) /\ SubSeq(a, lo, mid) = SubSeq(b, lo, mid)
       THEN FirstDiffIn(a, b, mid + 1, hi) ELSE FirstDiffIn(a, b, lo, mid)
FirstDiff(a, b) == FirstDiffIn(a, b, 1, (IF Len(a) < Len(b) THEN Len(a) ELSE Len(b)) + 1)

\* the chunk of the expected stream that position k of its normalised form falls into (the last one if beyond)
RECURSIVE ChunkOf(_, _, _, _)
ChunkOf(outs, k, lo, hi) ==
  IF lo >= hi THEN lo
  ELSE LET mid == (lo + hi) \div 2 IN
       IF Len(Norm(FlatOut(SubSeq(outs, 1, mid)))) >= k THEN ChunkOf(outs, k, lo, mid) ELSE ChunkOf(outs, k, mid + 1, hi)

\* b contains e as a contiguous piece
Contains(b, e) == e = << >> \/ \E k \in 1 .. (Len(b) - Len(e) + 1) : b[k] = e[1] /\ SubSeq(b, k, k + Len(e) - 1) = e
\* the position a diagnostic shows to the user: `<line>:<col> : <text>` (syntax errors) or `<line> :<col> : <text>`
\* (undefined labels), as printed on stdout -- the hook's diagpos event only says what the driver computed
Cites(bytes, p) ==
  LET tail == <<58>> \o DecDigits(p[2]) \o <<SPC, 58, SPC>> \o p[3]
  IN Contains(bytes, DecDigits(p[1]) \o tail) \/ Contains(bytes, DecDigits(p[1]) \o <<SPC>> \o tail)

OnStdout(r, ev) ==
  LET d == r.d
      outs == IF d.why = "quit" THEN d.out ELSE Append(d.out, [t |-> "final", b |-> <<NL>>])
      exp == FlatOut(outs)
      exact == ev.bytes = exp
      ne == Norm(exp)
      no == Norm(ev.bytes)
      okk == IF d.outfree \/ d.why = "unexpected" THEN TRUE
             ELSE exact \/ (~d.charout /\ ne = no)
  IN /\ Check(r.refuse = "" \/ d.why = "diag", "reject-" \o r.refuse, <<"no diagnostic was produced for a program that must be refused:", r.refuse>>)
     /\ Check(~ev.timeout, "hang", <<"the emulator did not terminate; last phase", d.phase, "index", d.idx>>)
     /\ Check(ev.timeout \/ d.why # "diag" \/ r.pos = << >> \/ Cites(ev.bytes, r.pos), "diagpos",
              <<"the diagnostic printed does not show the position", r.pos[1], r.pos[2], "and the line's text; stdout:", ev.bytes>>)
     /\ Check(ev.timeout \/ ev.status = 0, "total", <<"exit status", ev.status>>)
     \* the assembled program was handed to the data loader and the run ended without a memory image or a diagnostic
     /\ Check(d.phase # "load", "load", <<"the run ended while the data was being loaded: exit status", ev.status>>)
     /\ Check(ev.timeout \/ d.phase = "done", "control", <<"run ended in phase", d.phase, "index", d.idx>>)
     \* a run that died (exit status other than 0) is still judged on what it printed before it died: that must be the
     \* beginning of the expected output, and it must be all of it up to the last event; the first chunk that differs or
     \* is cut short is where it died -- a print statement, a service, a banner -- and the property about that chunk owns
     \* the verdict (seeded change C15-n: `print mem :16` with DS = FFFFh printed a row and aborted; only `total` saw it)
     /\ LET died == ~ev.timeout /\ ev.status # 0 /\ ~d.outfree /\ d.why # "unexpected" /\ ~d.charout /\ d.out # << >>
            dexp == Norm(FlatOut(d.out))
            dk == FirstDiff(no, dexp)
        IN Check(~died \/ dk > Len(dexp), "stdout",
                 [at |-> dk, chunk |-> d.out[ChunkOf(d.out, dk, 1, Len(d.out))].t, died |-> ev.status,
                  got |-> SubSeq(no, dk, IF Len(no) < dk + 60 THEN Len(no) ELSE dk + 60),
                  expected |-> SubSeq(dexp, dk, IF Len(dexp) < dk + 60 THEN Len(dexp) ELSE dk + 60)])
     /\ Check(ev.timeout \/ ev.status # 0 \/ okk, "stdout",
              LET k == FirstDiff(no, ne)
                  \* the chunk of the expected stream the first difference falls into
                  j == ChunkOf(outs, k, 1, Len(outs))
              IN [at |-> k, chunk |-> outs[j].t, got |-> SubSeq(no, k, IF Len(no) < k + 60 THEN Len(no) ELSE k + 60),
                  expected |-> SubSeq(ne, k, IF Len(ne) < k + 60 THEN Len(ne) ELSE k + 60)])
     /\ UNCHANGED run

(***************************************************************************)
\* C15: a run on arbitrary bytes has no syntax tree; only its frame is judged: it must end, by itself, with
\* exit status 0 (or 1: the file could not be read as text), having printed a result or a diagnostic
IsRaw(r) == r # << >> /\ "raw" \in DOMAIN r
\* A mutated text can be a valid program that loops by itself: the run is then still executing instructions
\* when the watchdog fires (the hook logged thousands of steps).  That is the program's behaviour, not a
\* failure to process the input; only a run that stops making progress without executing is a hang.
OnRawStdout(r, ev) ==
  /\ Check(~ev.timeout \/ ev.steps >= 5000, "hang", <<"the emulator did not terminate on", r.note, r.head, "steps executed", ev.steps>>)
  /\ Check(ev.timeout \/ ev.status \in {0, 1}, "abort", <<"exit status", ev.status, ev.stderr, "on", r.note, r.head>>)
  /\ Check(ev.timeout \/ ev.status \notin {0, 1} \/ ev.bytes # << >>, "abort", <<"no output at all on", r.note>>)
  /\ UNCHANGED run
\* a string given directly to one of the library's parsers: a result or an error value, never a panic / abort / hang
OnParse(ev) ==
  /\ Check(ev.outcome \in {"ok", "err"}, "parse", <<ev.parser, ev.outcome, ev.input>>)
  /\ UNCHANGED run

TraceInit == run = << >> /\ l = 1 /\ TLCSet(1, << >>)

TraceNext ==
  /\ l <= Len(Rec)
  /\ l' = l + 1
  /\ LET ev == Rec[l] IN
     CASE ev.ev = "program" /\ "raw" \in DOMAIN ev -> run' = [raw |-> TRUE, note |-> ev.note, head |-> ev.source_head]
       [] ev.ev = "parse" -> OnParse(ev)
       [] ev.ev = "cmdline" -> OnCmdline(ev)
       [] ev.ev = "stdout" /\ IsRaw(run) -> OnRawStdout(run, ev)
       [] IsRaw(run) -> UNCHANGED run
       [] ev.ev = "program" -> run' = NewRun(ev)
       [] ev.ev = "asm"     -> OnAsm(run, ev)
       [] ev.ev = "loaded"  -> OnLoaded(run, ev)
       [] ev.ev = "prompt"  -> OnPrompt(run, ev)
       [] ev.ev = "cmd"     -> OnCmd(run, ev)
       [] ev.ev = "step"    -> OnStep(run, ev)
       [] ev.ev = "message" -> OnMessage(run, ev)
       [] ev.ev = "input"   -> OnInput(run, ev)
       [] ev.ev = "readerr" -> OnReadErr(run, ev)
       [] ev.ev = "int"     -> OnInt(run, ev)
       [] ev.ev = "diag"    -> OnDiag(run, ev)
       [] ev.ev = "diagpos" -> OnDiagPos(run, ev)
       [] ev.ev = "exit"    -> OnExit(run, ev)
       [] ev.ev = "stdout"  -> OnStdout(run, ev)
       [] OTHER -> UNCHANGED run

TraceSpec == TraceInit /\ [][TraceNext]_<<run, l>>

TraceAccepted ==
  /\ ndJsonSerialize(IOEnv.OUT, TLCGet(1))
  /\ IF TLCGet("stats").diameter = Len(Rec) + 1 THEN TRUE
     ELSE Print(<<"TRACE NOT CONSUMED", TLCGet("stats").diameter, Len(Rec)>>, FALSE)

=============================================================================
