---------------------------- MODULE TraceCommon ----------------------------
(***************************************************************************)
(* Comparison of a logged post-state with a result of Machine!Exec, shared *)
(* by the instruction-grain (TraceStep) and driver-grain (TraceRun) trace  *)
(* specifications.                                                         *)
(***************************************************************************)
EXTENDS Deviations

Range(f) == {f[x] : x \in DOMAIN f}

\* list of <<addr, value>> pairs -> function (the harness never repeats an address)
MkMem(pairs) ==
  LET idx == DOMAIN pairs
      addrs == {pairs[k][1] : k \in idx}
  IN [a \in addrs |-> pairs[CHOOSE k \in idx : pairs[k][1] = a][2]]

(***************************************************************************)
(* Comparison of a logged post-state with an Exec result                   *)
(***************************************************************************)
RegDiffs(ev, r) == {n \in RegNames \ r.freeregs : ev.regs[n] # r.regs[n]}
FlagsMatch(ev, r) == (ev.flags & (65535 - r.undef)) = (r.flags & (65535 - r.undef))
MemDiffs(s, ev, r) ==
  LET obs == MkMem(ev.memw)
      addrs == (DOMAIN obs \cup DOMAIN r.writes) \ r.freemem
      po(a) == IF a \in DOMAIN obs THEN obs[a] ELSE Rd(s, a)
      pe(a) == IF a \in DOMAIN r.writes THEN r.writes[a] ELSE Rd(s, a)
  IN {a \in addrs : po(a) # pe(a)}
OutMatch(ev, r) == <<ev.out, ev.arg>> \in r.outs
StackMatch(ev, r) == ev.stack = r.stack

Matches(s, ev, r) ==
  /\ RegDiffs(ev, r) = {} /\ FlagsMatch(ev, r) /\ MemDiffs(s, ev, r) = {}
  /\ OutMatch(ev, r) /\ StackMatch(ev, r)

Explain(s, ev, r) ==
  [regs |-> RegDiffs(ev, r),
   flags |-> IF FlagsMatch(ev, r) THEN << >> ELSE <<r.flags, r.undef, ev.flags>>,
   mem |-> MemDiffs(s, ev, r),
   writes |-> r.writes,
   out |-> IF OutMatch(ev, r) THEN {} ELSE r.outs,
   stack |-> IF StackMatch(ev, r) THEN << >> ELSE r.stack,
   expregs |-> [n \in RegDiffs(ev, r) |-> r.regs[n]]]

\* the first known deviation that explains the event, or "" if none
ExplainingDev(s, ev) ==
  LET ds == {d \in KnownDeviations : DevApplies(d, s, ev.ast) /\
                                     Matches(s, ev, DevExec(d, s, ev.ast, ev.idx))}
  IN IF ds = {} THEN "" ELSE CHOOSE d \in ds : TRUE

=============================================================================
