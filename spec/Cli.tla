--------------------------------- MODULE Cli ---------------------------------
(***************************************************************************)
(* The whole command-line emulator as one state machine:                   *)
(*                                                                         *)
(*   Preprocess -> Refuse (ill-formed, undefined label, no start, > 64 KiB)*)
(*              |  Load -> Run* -> Done                                    *)
(*                                                                         *)
(* composed from the static semantics (Asm!WellFormed), the loader         *)
(* (Driver!Load), the assembler tables (Driver!Compile) and the run loop   *)
(* (Driver!Successors).  Its properties are the system-level statements of *)
(* C14 (nothing of a refused program executes), C12 (execution starts with *)
(* DS = 0 on the loaded image), C08 (it starts at `start`) and C20 (every  *)
(* finite input ends the run).  MC_Cli.cfg explores it for the small       *)
(* programs of MC_Driver x prompt scripts.                                 *)
(***************************************************************************)
EXTENDS Driver, Asm

CONSTANTS Programs,      \* the source programs explored (records data, items, interp, stdin)
          MaxRunSteps

VARIABLES phase,   \* "source" | "refused" | "loaded" | "running" | "done"
          P, d, executed
vars == <<phase, P, d, executed>>

Init == phase = "source" /\ P \in Programs /\ d = << >> /\ executed = 0

Acceptable(p) == WellFormed(p, Load(p).labels) /\ ~Load(p).over

Refuse ==
  /\ phase = "source" /\ ~Acceptable(P)
  /\ phase' = "refused" /\ UNCHANGED <<P, d, executed>>

LoadStep ==
  /\ phase = "source" /\ Acceptable(P)
  /\ d' = Boot(P, Compile(P), Load(P).mem)
  /\ phase' = "loaded" /\ UNCHANGED <<P, executed>>

RunStep ==
  /\ phase \in {"loaded", "running"} /\ d.phase # "done" /\ executed < MaxRunSteps
  /\ \E d2 \in Successors(P, Compile(P), Load(P), d) :
       /\ d' = d2
       /\ executed' = IF d.phase = "invoke" THEN executed + 1 ELSE executed
  /\ phase' = "running" /\ UNCHANGED P

Finish ==
  /\ phase \in {"loaded", "running"} /\ d.phase = "done"
  /\ phase' = "done" /\ UNCHANGED <<P, d, executed>>

Next == Refuse \/ LoadStep \/ RunStep \/ Finish
Spec == Init /\ [][Next]_vars /\ WF_vars(Next)

\* C14: nothing of a program that must be refused is ever executed, and it is refused
NothingOfARefusedProgramRuns == (~Acceptable(P)) => executed = 0 /\ phase \in {"source", "refused"}
\* C12 / C08: the run starts with DS = 0, FLAGS = F000h, CS = FFFFh, on the loaded image, at `start`
StartsAsSpecified ==
  phase = "loaded" =>
    /\ d.m.regs = FreshRegs /\ d.m.flags = FreshFlags /\ d.m.mem = Load(P).mem
    /\ d.idx = Compile(P).labels["start"] /\ d.m.stack = << >>
\* the index never leaves the instruction list
IndexInRange == phase \in {"loaded", "running", "done"} => d.idx \in 0 .. Len(Compile(P).code)
\* C20 / C15: every run ends (refused, or done, or cut by the exploration bound)
Ends == <>(phase \in {"refused", "done"} \/ executed >= MaxRunSteps)
=============================================================================
