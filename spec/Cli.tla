--------------------------------- MODULE Cli ---------------------------------
(***************************************************************************)
(* The whole command-line emulator as one state machine:                   *)
(*                                                                         *)
(*   Args -> NoRun (usage error, -h/-V, no file, file missing/unreadable)  *)
(*        |  Preprocess -> Refuse (ill-formed, undefined label, no start,  *)
(*                                 > 64 KiB)                               *)
(*                      |  Load -> Run* -> Done                            *)
(*                                                                         *)
(* composed from the static semantics (Asm!WellFormed), the loader         *)
(* (Driver!Load), the assembler tables (Driver!Compile) and the run loop   *)
(* (Driver!Successors).  Its properties are the system-level statements of *)
(* C14 (nothing of a refused program executes), C12 (execution starts with *)
(* DS = 0 on the loaded image), C08 (it starts at `start`) and C20 (every  *)
(* finite input ends the run).  MC_Cli.cfg explores it for the small       *)
(* programs of MC_Driver x prompt scripts.                                 *)
(***************************************************************************)
EXTENDS Driver, Asm

CONSTANTS Programs,      \* the source programs explored (records data, items, interp, stdin)
          Argvs,         \* the command lines explored (the file argument names the program's source unless it says otherwise)
          MaxRunSteps

VARIABLES phase,   \* "args" | "norun" | "source" | "refused" | "loaded" | "running" | "done"
          argv, P, d, executed
vars == <<phase, argv, P, d, executed>>

\* the -i flag of a program is what its command line says
Init == /\ phase = "args" /\ argv \in Argvs /\ P \in Programs /\ d = << >> /\ executed = 0
        /\ (CmdLine(argv).k = "run" => P.interp = CmdLine(argv).interp)

ParseArgs ==
  /\ phase = "args"
  /\ phase' = IF CmdLine(argv).k = "run" THEN "source" ELSE "norun"
  /\ UNCHANGED <<argv, P, d, executed>>

Acceptable(p) == WellFormed(p, Load(p).labels) /\ ~Load(p).over

Refuse ==
  /\ phase = "source" /\ ~Acceptable(P)
  /\ phase' = "refused" /\ UNCHANGED <<argv, P, d, executed>>

LoadStep ==
  /\ phase = "source" /\ Acceptable(P)
  /\ d' = Boot(P, Compile(P), Load(P).mem)
  /\ phase' = "loaded" /\ UNCHANGED <<argv, P, executed>>

RunStep ==
  /\ phase \in {"loaded", "running"} /\ d.phase # "done" /\ executed < MaxRunSteps
  /\ \E d2 \in Successors(P, Compile(P), Load(P), d) :
       /\ d' = d2
       /\ executed' = IF d.phase = "invoke" THEN executed + 1 ELSE executed
  /\ phase' = "running" /\ UNCHANGED <<argv, P>>

Finish ==
  /\ phase \in {"loaded", "running"} /\ d.phase = "done"
  /\ phase' = "done" /\ UNCHANGED <<argv, P, d, executed>>

Next == ParseArgs \/ Refuse \/ LoadStep \/ RunStep \/ Finish
Spec == Init /\ [][Next]_vars /\ WF_vars(Next)

\* C14: nothing of a program that must be refused is ever executed, and it is refused
NothingOfARefusedProgramRuns == (~Acceptable(P)) => executed = 0 /\ phase \in {"args", "norun", "source", "refused"}
\* a command line that names no readable source file (or asks for help, or is refused) runs nothing
NothingRunsWithoutASource == CmdLine(argv).k # "run" => executed = 0 /\ phase \in {"args", "norun"}
\* single-stepping from the first instruction on is exactly what -i / --interpreted asks for, wherever it stands
InterpIffFlag == phase \notin {"args", "norun"} => (P.interp <=> \E j \in 1 .. Len(argv) : argv[j].k = "flag" /\ argv[j].name \in InterpFlags)
\* C12 / C08: the run starts with DS = 0, FLAGS = F000h, CS = FFFFh, on the loaded image, at `start`
StartsAsSpecified ==
  phase = "loaded" =>
    /\ d.m.regs = FreshRegs /\ d.m.flags = FreshFlags /\ d.m.mem = Load(P).mem
    /\ d.idx = Compile(P).labels["start"] /\ d.m.stack = << >>
\* the index never leaves the instruction list
IndexInRange == phase \in {"loaded", "running", "done"} => d.idx \in 0 .. Len(Compile(P).code)
\* C20 / C15: every run ends (refused, or done, or cut by the exploration bound)
Ends == <>(phase \in {"norun", "refused", "done"} \/ executed >= MaxRunSteps)
=============================================================================
