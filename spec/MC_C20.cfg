SPECIFICATION SpecC20
CONSTANT MaxBlocks = 0
CONSTANT MaxScript = 3
CONSTANT MaxSteps = 60
CONSTANT Gen = FALSE
INVARIANT C20PromptPure
INVARIANT C20OnePrompt
INVARIANT C20SameResult
PROPERTY C20Terminates
CHECK_DEADLOCK FALSE
