SPECIFICATION SpecC08
CONSTANT MaxBlocks = 3
CONSTANT MaxScript = 0
CONSTANT MaxSteps = 40
CONSTANT Gen = FALSE
INVARIANT C08Simulation
INVARIANT C08Tables
INVARIANT C08EndsWell
CHECK_DEADLOCK FALSE
