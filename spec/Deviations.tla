---------------------------- MODULE Deviations ----------------------------
(***************************************************************************)
(* Named deviations: the transition the code is KNOWN to take where it     *)
(* differs from the architecture (DESIGN.md section 5).  A deviation is a  *)
(* complete alternative result, confined to a scope; it is only consulted  *)
(* when the ideal action does not explain an observation, and only if its  *)
(* name is listed in KnownDeviations (generated from known_findings.json). *)
(* An observation that differs from the ideal in any other way is still a  *)
(* violation.                                                              *)
(***************************************************************************)
EXTENDS Machine, KnownDevs

AllDeviations == {"Dev_IncDecWritesCF", "Dev_NegZeroKeepsSF", "Dev_Imul8Flags",
                  "Dev_JleConjunction", "Dev_LeaDsRelative", "Dev_MacroNestingLimit"}

\* macro uses nested deeper than MaxNesting levels are refused with a diagnostic instead of being expanded
\* (the limit replaced a native stack overflow: every level re-enters the parser recursively); a chain of
\* `depth` macros has `depth` macros being expanded at its innermost use
MaxNesting == 128
DevChainApplies(d, depth, status, timeout, ok, deep) ==
  d = "Dev_MacroNestingLimit" /\ depth > MaxNesting /\ ~timeout /\ status = 0 /\ ~ok /\ deep

BinOrLogic(op, w, a, b, cin) ==
  IF op \in {"and", "or", "xor", "test"} THEN Logic(op, w, a, b) ELSE BinArith(op, w, a, b, cin)

UnOp(op, w, a) ==
  CASE op = "inc" -> Inc(w, a) [] op = "dec" -> Dec(w, a) [] op = "neg" -> Neg(w, a)
    [] op = "not" -> NotW(w, a)

(***************************************************************************)
(* ALU-level deviations                                                    *)
(***************************************************************************)
\* no deviation of the two-operand ALU operations is currently known
DevAluApplies(d, op, w) == FALSE
DevBinOrLogic(d, op, w, a, b, cin, fin) == BinOrLogic(op, w, a, b, cin)

\* byte INC writes CF like ADD 1 (pinned by test_unary_arithmetic: `inc byte [0]` asserts CF)
\* word NEG 0 leaves SF as it was (pinned by test_unary_arithmetic: `neg bx`, bx = 0 asserts SF)
DevUnApplies(d, op, w) ==
  \/ d = "Dev_IncDecWritesCF" /\ op = "inc" /\ w = 8
  \/ d = "Dev_NegZeroKeepsSF" /\ op = "neg" /\ w = 16
DevUnOp(d, op, w, a, fin) ==
  CASE d = "Dev_IncDecWritesCF" -> IF op = "inc" THEN AddW(w, a, 1, 0) ELSE SubW(w, a, 1, 0)
    [] d = "Dev_NegZeroKeepsSF" ->
         LET r == Neg(w, a) IN
         IF a = 0 THEN [r EXCEPT !.def = r.def - SF, !.fl = r.fl - (r.fl & SF)] ELSE r

\* IMUL byte: CF = OF = (AH before the multiplication # FFh)
\* (pinned by test_unary_arithmetic: 4 * -4 asserts CF = OF = 1)
DevMdApplies(d, op, w) == d = "Dev_Imul8Flags" /\ op = "imul" /\ w = 8
DevMulDiv(d, op, w, ax, dx, v) ==
  LET r == MulDiv(op, w, ax, dx, v) IN [r EXCEPT !.fl = B(Hi(ax) # 255, CF + OF)]

\* JLE/JNG taken iff ZF = 1 AND SF # OF (pinned by test_jg_jle)
DevJccApplies(d, mn) == d = "Dev_JleConjunction" /\ mn = "jle"
DevCond(d, mn, f) == FlagSet(f, ZF) /\ (FlagSet(f, SF) # FlagSet(f, OF))

(***************************************************************************)
(* Step-level deviations: complete alternative results of Exec             *)
(***************************************************************************)
DevApplies(d, s, i) ==
  CASE d = "Dev_IncDecWritesCF" -> i.cls = "unarith" /\ i.op = "inc" /\ i.w = 8
    [] d = "Dev_NegZeroKeepsSF" -> i.cls = "unarith" /\ i.op = "neg" /\ i.w = 16 /\ Val(s, i.dst, i.w) = 0
    [] d = "Dev_Imul8Flags"     -> i.cls = "unarith" /\ i.op = "imul" /\ i.w = 8
    [] d = "Dev_JleConjunction" -> i.cls = "jcc" /\ Canon(i.mn) = "jle"
    \* LEA yields (physical address - DS*16) mod 2^16: differs only when the operand's
    \* segment is not DS (pinned by test_lea: `lea ax, word [bp]` with SS = 10 asserts A6h)
    [] d = "Dev_LeaDsRelative"  -> i.cls = "lea" /\ SegOf(i.src) # "ds"
    [] OTHER -> FALSE

DevExec(d, s, i, idx) ==
  CASE d \in {"Dev_IncDecWritesCF", "Dev_NegZeroKeepsSF"} ->
         LET a == Val(s, i.dst, i.w)
             r == DevUnOp(d, i.op, i.w, a, s.flags)
             st == Store(s, s.regs, i.dst, i.w, r.res)
         IN Res(st[1], NewFlags(s.flags, r.def, r.fl), 0, st[2], s.stack, Next1)
    [] d = "Dev_Imul8Flags" ->
         LET r == DevMulDiv(d, i.op, i.w, s.regs["ax"], s.regs["dx"], Val(s, i.dst, i.w))
         IN Res([s.regs EXCEPT !["ax"] = r.ax, !["dx"] = r.dx],
                NewFlags(s.flags, r.def, r.fl), r.undef, NoWrites, s.stack, Next1)
    [] d = "Dev_JleConjunction" ->
         Res(s.regs, s.flags, 0, NoWrites, s.stack,
             IF DevCond(d, "jle", s.flags) THEN {<<"JMP", i.target>>} ELSE Next1)
    [] d = "Dev_LeaDsRelative" ->
         Res([s.regs EXCEPT ![i.dst.r] = (Addr(s.regs, i.src) - s.regs["ds"] * 16) % 65536],
             s.flags, 0, NoWrites, s.stack, Next1)

=============================================================================
