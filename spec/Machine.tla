------------------------------ MODULE Machine ------------------------------
(***************************************************************************)
(* The emulated 8086: registers, flag word, 1 MiB memory, call stack, and  *)
(* the effect of one interpreter invocation on them.                       *)
(*                                                                         *)
(* A machine state is a record                                             *)
(*    [regs : [RegNames -> Word], flags : Word, mem : sparse overlay,      *)
(*     bg : background seed, stack : Seq(Nat)]                             *)
(* Memory is the background function Bg(bg, a) overlaid by mem (a function *)
(* from the addresses that differ to their byte).                          *)
(*                                                                         *)
(* Exec(s, ins, idx) is the effect of invoking the interpreter on the      *)
(* abstract instruction ins located at code index idx.  It yields          *)
(*   regs, flags   : expected post values                                  *)
(*   undef         : flag bits that may have any value afterwards          *)
(*   freeregs      : registers whose post value is not constrained         *)
(*   writes        : function address -> byte of the memory bytes written  *)
(*   freemem       : addresses whose post value is not constrained         *)
(*   stack         : call stack afterwards                                 *)
(*   outs          : the set of acceptable <<outcome, argument>> pairs     *)
(* Everything not mentioned is unchanged: the frame condition is part of   *)
(* the result (regs/flags are total; memory outside writes is untouched).  *)
(***************************************************************************)
EXTENDS Alu, Bitwise, TLC

Reg16Names == {"ax", "bx", "cx", "dx", "sp", "bp", "si", "di"}
SegNames   == {"cs", "ds", "ss", "es"}
RegNames   == Reg16Names \cup SegNames \cup {"ip"}
Reg8Names  == {"al", "ah", "bl", "bh", "cl", "ch", "dl", "dh"}

Outcomes == {"NEXT", "JMP", "REPEAT", "PRINT", "INT", "HALT", "ERR"}

Parent(r8) == CASE r8 \in {"al", "ah"} -> "ax" [] r8 \in {"bl", "bh"} -> "bx"
                [] r8 \in {"cl", "ch"} -> "cx" [] r8 \in {"dl", "dh"} -> "dx"
IsHigh(r8) == r8 \in {"ah", "bh", "ch", "dh"}

Get8(regs, r8) == IF IsHigh(r8) THEN Hi(regs[Parent(r8)]) ELSE Lo(regs[Parent(r8)])
Set8(regs, r8, v) ==
  LET p == Parent(r8) IN
  [regs EXCEPT ![p] = IF IsHigh(r8) THEN v * 256 + Lo(regs[p]) ELSE Hi(regs[p]) * 256 + v]

(***************************************************************************)
(* Memory                                                                  *)
(***************************************************************************)
Bg(seed, a) == IF seed < 0 THEN 0
               ELSE ((a % 65521) * 251 + (a \div 4096) * 37 + seed) % 256

Rd(s, a)  == IF a \in DOMAIN s.mem THEN s.mem[a] ELSE Bg(s.bg, a)
Rd16(s, a) == Rd(s, a) + 256 * Rd(s, (a + 1) % MB)

Phys(seg, off) == (seg * 16 + off) % MB

NoWrites == << >>
Wr8(a, v)  == (a :> v)
Wr16(a, v) == (a :> Lo(v)) @@ (((a + 1) % MB) :> Hi(v))
\* Over(new, old): later writes override earlier ones
Over(new, old) == new @@ old

(***************************************************************************)
(* Operand forms (DESIGN.md appendix A)                                    *)
(*   [k:"reg8",r] [k:"reg16",r] [k:"sreg",r] [k:"imm",v]                   *)
(*   [k:"mem", seg, base, index, disp]   seg/base/index = "" when absent   *)
(*   [k:"label", name, off]              data label, DS-relative           *)
(***************************************************************************)
RegOr0(regs, r) == IF r = "" THEN 0 ELSE regs[r]

Offset(regs, o) ==
  IF o.k = "label" THEN o.off % 65536
  ELSE (RegOr0(regs, o.base) + RegOr0(regs, o.index) + o.disp) % 65536

SegOf(o) ==
  IF o.k = "label" THEN "ds"
  ELSE IF o.seg # "" THEN o.seg
  ELSE IF o.base = "bp" THEN "ss" ELSE "ds"

Addr(regs, o) == Phys(regs[SegOf(o)], Offset(regs, o))

IsMem(o) == o.k \in {"mem", "label"}

Val(s, o, w) ==
  CASE o.k = "reg8"  -> Get8(s.regs, o.r)
    [] o.k = "reg16" -> s.regs[o.r]
    [] o.k = "sreg"  -> s.regs[o.r]
    [] o.k = "imm"   -> o.v % Pow2(w)
    [] o.k = "offset" -> o.v % Pow2(w)                \* OFFSET label: the label's offset as a constant
    [] IsMem(o)      -> IF w = 8 THEN Rd(s, Addr(s.regs, o)) ELSE Rd16(s, Addr(s.regs, o))

\* storing v (width w) into operand o, addresses resolved in the PRE state s: <<regs', writes>>
Store(s, regs, o, w, v) ==
  CASE o.k = "reg8"  -> << Set8(regs, o.r, v), NoWrites >>
    [] o.k = "reg16" -> << [regs EXCEPT ![o.r] = v], NoWrites >>
    [] o.k = "sreg"  -> << [regs EXCEPT ![o.r] = v], NoWrites >>
    [] IsMem(o)      -> << regs, IF w = 8 THEN Wr8(Addr(s.regs, o), v) ELSE Wr16(Addr(s.regs, o), v) >>

(***************************************************************************)
(* Result record and flag update                                           *)
(***************************************************************************)
Res(regs, flags, undef, writes, stack, outs) ==
  [regs |-> regs, flags |-> flags, undef |-> undef, freeregs |-> {}, writes |-> writes,
   freemem |-> {}, stack |-> stack, outs |-> outs]

Next1 == {<<"NEXT", 0>>}

\* defined bits replaced by fl, everything else kept
NewFlags(f, def, fl) == (f - (f & def)) + fl

Same(s) == Res(s.regs, s.flags, 0, NoWrites, s.stack, Next1)

(***************************************************************************)
(* Instruction classes                                                     *)
(***************************************************************************)
ExecBinArith(s, i) ==
  LET a == Val(s, i.dst, i.w)
      b == Val(s, i.src, i.w)
      r == BinArith(i.op, i.w, a, b, s.flags % 2)
      st == Store(s, s.regs, i.dst, i.w, r.res)
  IN IF i.op = "cmp"
     THEN Res(s.regs, NewFlags(s.flags, r.def, r.fl), 0, NoWrites, s.stack, Next1)
     ELSE Res(st[1], NewFlags(s.flags, r.def, r.fl), 0, st[2], s.stack, Next1)

ExecLogic(s, i) ==
  LET a == Val(s, i.dst, i.w)
      b == Val(s, i.src, i.w)
      r == Logic(i.op, i.w, a, b)
      st == Store(s, s.regs, i.dst, i.w, r.res)
  IN IF i.op = "test"
     THEN Res(s.regs, NewFlags(s.flags, r.def, r.fl), r.undef, NoWrites, s.stack, Next1)
     ELSE Res(st[1], NewFlags(s.flags, r.def, r.fl), r.undef, st[2], s.stack, Next1)

ExecNot(s, i) ==
  LET st == Store(s, s.regs, i.dst, i.w, NotW(i.w, Val(s, i.dst, i.w)).res)
  IN Res(st[1], s.flags, 0, st[2], s.stack, Next1)

ExecShift(s, i) ==
  LET v == Val(s, i.dst, i.w)
      n == IF i.cnt.k = "cl" THEN Lo(s.regs["cx"]) ELSE i.cnt.v
      r == Shift(i.op, i.w, v, s.flags % 2, n)
      st == Store(s, s.regs, i.dst, i.w, r.res)
  IN IF n = 0 THEN Same(s)
     ELSE Res(st[1], NewFlags(s.flags, r.def, r.fl), r.undef, st[2], s.stack, Next1)

ExecUnArith(s, i) ==
  LET a == Val(s, i.dst, i.w)
      r == CASE i.op = "inc" -> Inc(i.w, a) [] i.op = "dec" -> Dec(i.w, a) [] i.op = "neg" -> Neg(i.w, a)
      st == Store(s, s.regs, i.dst, i.w, r.res)
  IN Res(st[1], NewFlags(s.flags, r.def, r.fl), 0, st[2], s.stack, Next1)

\* MUL/IMUL/DIV/IDIV: operand read first, AX/DX written; the operand itself is not written
ExecMulDiv(s, i) ==
  LET v == Val(s, i.dst, i.w)
      r == MulDiv(i.op, i.w, s.regs["ax"], s.regs["dx"], v)
      regs2 == [s.regs EXCEPT !["ax"] = r.ax, !["dx"] = r.dx]
      ok == Res(regs2, NewFlags(s.flags, r.def, r.fl), r.undef, NoWrites, s.stack, Next1)
      err == [Res(s.regs, s.flags, Status, NoWrites, s.stack, {<<"INT", 0>>})
                EXCEPT !.freeregs = {"ax", "dx"}]
  IN IF ~r.ok THEN err
     ELSE IF r.qmin /\ AcceptMinQuotientTrap THEN [ok EXCEPT !.outs = {<<"NEXT", 0>>, <<"INT", 0>>},
                                   !.freeregs = {"ax", "dx"}, !.undef = Status]
     ELSE ok

AdjustRes(s, r) ==
  Res([s.regs EXCEPT !["ax"] = r.ax, !["dx"] = r.dx],
      NewFlags(s.flags, r.def, r.fl), r.undef, NoWrites, s.stack, Next1)
ExecAdjust(s, i) == AdjustRes(s, Adjust(i.op, s.regs["ax"], s.regs["dx"], s.flags))

ExecMov(s, i) ==
  LET st == Store(s, s.regs, i.dst, i.w, Val(s, i.src, i.w))
  IN Res(st[1], s.flags, 0, st[2], s.stack, Next1)

\* XCHG: both values read first, then both stored
ExecXchg(s, i) ==
  LET va == Val(s, i.a, i.w)
      vb == Val(s, i.b, i.w)
      s1 == Store(s, s.regs, i.a, i.w, vb)
      s2 == Store(s, s1[1], i.b, i.w, va)
  IN Res(s2[1], s.flags, 0, Over(s2[2], s1[2]), s.stack, Next1)

StackTop(regs) == Phys(regs["ss"], regs["sp"])

ExecPush(s, i) ==
  LET v == Val(s, i.src, 16)
      sp2 == (s.regs["sp"] - 2) % 65536
      a == Phys(s.regs["ss"], sp2)
      r == Res([s.regs EXCEPT !["sp"] = sp2], s.flags, 0, Wr16(a, v), s.stack, Next1)
  IN \* PUSH SP: the pushed value is not part of the verdict (DESIGN 7.6)
     IF i.src.k = "reg16" /\ i.src.r = "sp"
     THEN [r EXCEPT !.freemem = {a, (a + 1) % MB}] ELSE r

ExecPop(s, i) ==
  LET v == Rd16(s, StackTop(s.regs))
      sp2 == (s.regs["sp"] + 2) % 65536
      st == Store(s, s.regs, i.dst, 16, v)
      regs2 == IF i.dst.k = "reg16" /\ i.dst.r = "sp" THEN st[1]
               ELSE [st[1] EXCEPT !["sp"] = sp2]
      r == Res(regs2, s.flags, 0, st[2], s.stack, Next1)
  IN IF i.dst.k = "reg16" /\ i.dst.r = "sp" THEN [r EXCEPT !.freeregs = {"sp"}] ELSE r

ExecFlagsX(s, i) ==
  CASE i.op = "lahf" -> Res(Set8(s.regs, "ah", Lo(s.flags)), s.flags, 0, NoWrites, s.stack, Next1)
    [] i.op = "sahf" -> Res(s.regs, Hi(s.flags) * 256 + Hi(s.regs["ax"]), 0, NoWrites, s.stack, Next1)
    [] i.op = "pushf" ->
         LET sp2 == (s.regs["sp"] - 2) % 65536
         IN Res([s.regs EXCEPT !["sp"] = sp2], s.flags, 0,
                Wr16(Phys(s.regs["ss"], sp2), s.flags), s.stack, Next1)
    [] i.op = "popf" ->
         Res([s.regs EXCEPT !["sp"] = (s.regs["sp"] + 2) % 65536],
             Rd16(s, StackTop(s.regs)), 0, NoWrites, s.stack, Next1)

ExecXlat(s, i) ==
  LET a == Phys(s.regs["ds"], (s.regs["bx"] + Lo(s.regs["ax"])) % 65536)
  IN Res(Set8(s.regs, "al", Rd(s, a)), s.flags, 0, NoWrites, s.stack, Next1)

ExecLea(s, i) ==
  Res([s.regs EXCEPT ![i.dst.r] = Offset(s.regs, i.src)], s.flags, 0, NoWrites, s.stack, Next1)

ExecCtl(s, i) ==
  LET f == s.flags IN
  CASE i.op = "stc" -> Res(s.regs, NewFlags(f, CF, CF), 0, NoWrites, s.stack, Next1)
    [] i.op = "clc" -> Res(s.regs, NewFlags(f, CF, 0), 0, NoWrites, s.stack, Next1)
    [] i.op = "cmc" -> Res(s.regs, NewFlags(f, CF, B(~FlagSet(f, CF), CF)), 0, NoWrites, s.stack, Next1)
    [] i.op = "std" -> Res(s.regs, NewFlags(f, DF, DF), 0, NoWrites, s.stack, Next1)
    [] i.op = "cld" -> Res(s.regs, NewFlags(f, DF, 0), 0, NoWrites, s.stack, Next1)
    [] i.op = "sti" -> Res(s.regs, NewFlags(f, IFL, IFL), 0, NoWrites, s.stack, Next1)
    [] i.op = "cli" -> Res(s.regs, NewFlags(f, IFL, 0), 0, NoWrites, s.stack, Next1)
    [] i.op = "nop" -> Same(s)
    [] i.op = "hlt" -> Res(s.regs, f, 0, NoWrites, s.stack, {<<"HALT", 0>>})

\* conditional jumps, JMP, JCXZ and the LOOP family; i.target is the code index of the label
ExecJcc(s, i) ==
  LET mn == Canon(i.mn) IN
  IF IsLoop(mn)
  THEN LET cx2 == (s.regs["cx"] - 1) % 65536
       IN Res([s.regs EXCEPT !["cx"] = cx2], s.flags, 0, NoWrites, s.stack,
              IF LoopTaken(mn, cx2, s.flags) THEN {<<"JMP", i.target>>} ELSE Next1)
  ELSE LET taken == IF mn = "jcxz" THEN s.regs["cx"] = 0 ELSE Cond(mn, s.flags)
       IN Res(s.regs, s.flags, 0, NoWrites, s.stack,
              IF taken THEN {<<"JMP", i.target>>} ELSE Next1)

ExecCall(s, i, idx) ==
  Res(s.regs, s.flags, 0, NoWrites, Append(s.stack, idx + 1), {<<"JMP", i.target>>})

\* RET with an empty call stack is a reported error (DESIGN 7.14)
ExecRet(s, i) ==
  IF s.stack = << >> THEN Res(s.regs, s.flags, 0, NoWrites, s.stack, {<<"ERR", 0>>})
  ELSE Res(s.regs, s.flags, 0, NoWrites, SubSeq(s.stack, 1, Len(s.stack) - 1),
           {<<"JMP", s.stack[Len(s.stack)]>>})

ExecInt(s, i) == Res(s.regs, s.flags, 0, NoWrites, s.stack, {<<"INT", i.n>>})
ExecPrint(s, i) == Res(s.regs, s.flags, 0, NoWrites, s.stack, {<<"PRINT", 0>>})

(***************************************************************************)
(* String instructions.  Body(s, i) is one execution of the element        *)
(* operation; a REP-prefixed line is invoked repeatedly by the driver      *)
(* while the interpreter answers REPEAT.                                   *)
(***************************************************************************)
StrStep(s, w) == IF FlagSet(s.flags, DF) THEN 65536 - (w \div 8) ELSE w \div 8
Adv(x, d) == (x + d) % 65536

Body(s, i) ==
  LET w == i.w
      d == StrStep(s, w)
      src == Phys(s.regs["ds"], s.regs["si"])
      dst == Phys(s.regs["es"], s.regs["di"])
      rd(a) == IF w = 8 THEN Rd(s, a) ELSE Rd16(s, a)
      wr(a, v) == IF w = 8 THEN Wr8(a, v) ELSE Wr16(a, v)
      acc == IF w = 8 THEN Lo(s.regs["ax"]) ELSE s.regs["ax"]
      setacc(v) == IF w = 8 THEN Set8(s.regs, "al", v) ELSE [s.regs EXCEPT !["ax"] = v]
  IN CASE i.op = "movs" ->
            Res([s.regs EXCEPT !["si"] = Adv(@, d), !["di"] = Adv(@, d)], s.flags, 0,
                wr(dst, rd(src)), s.stack, Next1)
       [] i.op = "lods" ->
            Res([setacc(rd(src)) EXCEPT !["si"] = Adv(@, d)], s.flags, 0, NoWrites, s.stack, Next1)
       [] i.op = "stos" ->
            Res([s.regs EXCEPT !["di"] = Adv(@, d)], s.flags, 0, wr(dst, acc), s.stack, Next1)
       [] i.op = "cmps" ->
            LET r == SubW(w, rd(src), rd(dst), 0)
            IN Res([s.regs EXCEPT !["si"] = Adv(@, d), !["di"] = Adv(@, d)],
                   NewFlags(s.flags, r.def, r.fl), 0, NoWrites, s.stack, Next1)
       [] i.op = "scas" ->
            LET r == SubW(w, acc, rd(dst), 0)
            IN Res([s.regs EXCEPT !["di"] = Adv(@, d)],
                   NewFlags(s.flags, r.def, r.fl), 0, NoWrites, s.stack, Next1)

\* termination by the ZF test of REPE/REPNE after an executed body
ZfStops(rep, flags) ==
  (rep = "repz" /\ ~FlagSet(flags, ZF)) \/ (rep = "repnz" /\ FlagSet(flags, ZF))

(* One invocation of a REP-prefixed line:                                  *)
(*  - CX = 0: nothing happens, answer NEXT;                                *)
(*  - CX > 0: exactly one body, CX decremented; if the ZF test stops the   *)
(*    repetition the answer must be NEXT; if CX reached 0 either NEXT or   *)
(*    REPEAT (the next invocation then falls in the first case);           *)
(*    otherwise REPEAT.                                                    *)
ExecRepInvoke(s, i) ==
  IF s.regs["cx"] = 0 THEN Same(s)
  ELSE LET b == Body(s, i)
           cx2 == s.regs["cx"] - 1
           outs == IF ZfStops(i.rep, b.flags) THEN Next1
                   ELSE IF cx2 = 0 THEN {<<"NEXT", 0>>, <<"REPEAT", 0>>}
                   ELSE {<<"REPEAT", 0>>}
       IN [b EXCEPT !.regs = [b.regs EXCEPT !["cx"] = cx2], !.outs = outs]

ExecString(s, i) == IF i.rep = "" THEN Body(s, i) ELSE ExecRepInvoke(s, i)

(***************************************************************************)
(* Dispatch                                                                *)
(***************************************************************************)
Exec(s, i, idx) ==
  CASE i.cls = "binarith" -> ExecBinArith(s, i)
    [] i.cls = "logic"    -> ExecLogic(s, i)
    [] i.cls = "not"      -> ExecNot(s, i)
    [] i.cls = "shift"    -> ExecShift(s, i)
    [] i.cls = "unarith"  -> IF i.op \in {"inc", "dec", "neg"} THEN ExecUnArith(s, i) ELSE ExecMulDiv(s, i)
    [] i.cls = "adjust"   -> ExecAdjust(s, i)
    [] i.cls = "mov"      -> ExecMov(s, i)
    [] i.cls = "xchg"     -> ExecXchg(s, i)
    [] i.cls = "push"     -> ExecPush(s, i)
    [] i.cls = "pop"      -> ExecPop(s, i)
    [] i.cls = "flagsx"   -> ExecFlagsX(s, i)
    [] i.cls = "xlat"     -> ExecXlat(s, i)
    [] i.cls = "lea"      -> ExecLea(s, i)
    [] i.cls = "ctl"      -> ExecCtl(s, i)
    [] i.cls = "jcc"      -> ExecJcc(s, i)
    [] i.cls = "call"     -> ExecCall(s, i, idx)
    [] i.cls = "ret"      -> ExecRet(s, i)
    [] i.cls = "int"      -> ExecInt(s, i)
    [] i.cls = "print"    -> ExecPrint(s, i)
    [] i.cls = "string"   -> ExecString(s, i)
    \* text that is no instruction: a reported error, nothing changes (C19: whatever came before)
    [] i.cls = "invalid"  -> Res(s.regs, s.flags, 0, NoWrites, s.stack, {<<"ERR", 0>>})

\* Where the manual admits two readings (DAA/DAS, DESIGN.md 7.4) every reading is a result
ExecAlts(s, i, idx) ==
  IF i.cls = "adjust" /\ i.op \in {"daa", "das"}
  THEN {AdjustRes(s, r) : r \in AdjustAlts(i.op, s.regs["ax"], s.regs["dx"], s.flags)}
  ELSE {Exec(s, i, idx)}

\* a new machine: everything zero except FLAGS = F000h and CS = FFFFh (C19)
FreshRegs == [n \in RegNames |-> IF n = "cs" THEN 65535 ELSE 0]
FreshFlags == 61440

(***************************************************************************)
(* Post-state predicates used by model checking and trace validation       *)
(***************************************************************************)
\* every address an instruction touches is inside the 1 MiB
WritesInRange(r) == \A a \in DOMAIN r.writes : a \in 0 .. MB - 1 /\ r.writes[a] \in Byte

RegsOK(regs) == \A n \in RegNames : regs[n] \in Word

ResultOK(r) ==
  /\ RegsOK(r.regs) /\ r.flags \in Word /\ WritesInRange(r)
  /\ r.outs # {} /\ \A o \in r.outs : o[1] \in Outcomes

\* the memory after applying a result to s
ApplyMem(s, r) == r.writes @@ s.mem

=============================================================================
