SPECIFICATION SpecBad
CONSTANT Gen = TRUE
INVARIANT Emit
CHECK_DEADLOCK FALSE
