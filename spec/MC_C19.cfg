SPECIFICATION SpecC19
CONSTANT MaxDepth = 0
CONSTANT MaxCX = 0
CONSTANT Gen = FALSE
INVARIANT C19NonInterference
CHECK_DEADLOCK FALSE
