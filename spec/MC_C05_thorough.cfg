SPECIFICATION SpecC05
CONSTANT MaxDepth = 6
CONSTANT MaxCX = 0
CONSTANT Gen = FALSE
INVARIANT C05Lifo
INVARIANT C05Balance
INVARIANT C05Live
INVARIANT C05Laws
VIEW View
CHECK_DEADLOCK FALSE
