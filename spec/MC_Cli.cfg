SPECIFICATION Spec
CONSTANT MaxRunSteps = 60
INVARIANT NothingOfARefusedProgramRuns
INVARIANT StartsAsSpecified
INVARIANT IndexInRange
INVARIANT NothingRunsWithoutASource
INVARIANT InterpIffFlag
PROPERTY Ends
CHECK_DEADLOCK FALSE
