SPECIFICATION Spec
CONSTANT MaxRunSteps = 60
INVARIANT NothingOfARefusedProgramRuns
INVARIANT StartsAsSpecified
INVARIANT IndexInRange
PROPERTY Ends
CHECK_DEADLOCK FALSE
