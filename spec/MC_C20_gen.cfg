SPECIFICATION SpecC20
CONSTANT MaxBlocks = 0
CONSTANT MaxScript = 3
CONSTANT MaxSteps = 0
CONSTANT Gen = TRUE
INVARIANT C20Emit
CHECK_DEADLOCK FALSE
