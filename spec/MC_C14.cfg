SPECIFICATION SpecC14
CONSTANT MaxBlocks = 3
CONSTANT MaxScript = 0
CONSTANT MaxSteps = 0
CONSTANT Gen = FALSE
INVARIANT C14Agreement
INVARIANT C14Ranges
CHECK_DEADLOCK FALSE
