//! Per-property workloads (DESIGN.md section 6).
use crate::alu::*;
use crate::ast::*;
use crate::exec::*;
use crate::forms::*;
use crate::gen::*;
use serde_json::{json, Value};

pub fn generate(prop: &str, tier: &str, seed: u64, out: &str, shards: usize) {
    let thorough = tier == "thorough";
    let mut sh = Shards::new(out, shards);
    let asm = Asm::new();
    let mut mach = Mach::new();
    let mut rng = Rng::new(seed);
    // a clean, known memory for the register-only sweeps
    let _ = mach.reset(&Regs::default(), 0, 0, &[], &[]);
    match prop {
        "C01" => gen_c01(&asm, &mut mach, &mut rng, &mut sh, thorough),
        _ => {
            eprintln!("no generator for {}", prop);
            std::process::exit(2);
        }
    }
    sh.finish(out, json!({"prop": prop, "tier": tier, "seed": seed}));
}

const FINS: [u16; 2] = [0x0000, 0xFFFE];

/// step events over the operand-form alternatives of a two-operand production
fn form_steps_binary(asm: &Asm, mach: &mut Mach, rng: &mut Rng, sh: &mut Shards, cls: &str, ops: &[&'static str], signed_imm: bool, per_simple: usize, per_shape: usize) {
    let shapes = all_shapes();
    for op in ops {
        for w in [8u8, 16u8] {
            for p in PAIRS {
                let has_mem = matches!(p, Pair::RegMem | Pair::MemReg | Pair::MemImm);
                let mut cases: Vec<Option<(Shape, &'static str)>> = Vec::new();
                if has_mem {
                    for s in &shapes {
                        for seg in SEGS {
                            for _ in 0..per_shape {
                                cases.push(Some((*s, seg)));
                            }
                        }
                    }
                } else {
                    for _ in 0..per_simple {
                        cases.push(None);
                    }
                }
                for c in cases {
                    let (dst, src) = pair_operands(p, w, signed_imm, rng, c);
                    let ins = if cls == "logic" {
                        Ins::Logic { op, w, dst, src }
                    } else if cls == "mov" {
                        Ins::Mov { w, dst, src }
                    } else {
                        Ins::BinArith { op, w, dst, src }
                    };
                    let regs = random_regs(rng);
                    let flags = rng.u16();
                    let seed = rng.below(256) as i64;
                    let evs = run_one(asm, mach, &ins, &rand_spelling(rng), &regs, flags, seed, &[], &[]);
                    sh.count(&format!("{}:{}:{:?}", cls, op, p), 1);
                    sh.unit(&evs);
                }
            }
        }
    }
}

fn form_steps_unary(asm: &Asm, mach: &mut Mach, rng: &mut Rng, sh: &mut Shards, ops: &[&'static str], per_simple: usize, per_shape: usize) {
    let shapes = all_shapes();
    for op in ops {
        for w in [8u8, 16u8] {
            for o in ONES {
                let mut cases: Vec<Option<(Shape, &'static str)>> = Vec::new();
                if o == One::Mem {
                    for s in &shapes {
                        for seg in SEGS {
                            for _ in 0..per_shape {
                                cases.push(Some((*s, seg)));
                            }
                        }
                    }
                } else {
                    for _ in 0..per_simple {
                        cases.push(None);
                    }
                }
                for c in cases {
                    let dst = one_operand(o, w, rng, c);
                    let ins = if *op == "not" { Ins::Not { w, dst } } else { Ins::UnArith { op, w, dst } };
                    let regs = random_regs(rng);
                    let flags = rng.u16();
                    let seed = rng.below(256) as i64;
                    let evs = run_one(asm, mach, &ins, &rand_spelling(rng), &regs, flags, seed, &[], &[]);
                    sh.count(&format!("unary:{}:{:?}", op, o), 1);
                    sh.unit(&evs);
                }
            }
        }
    }
}

pub fn rand_spelling(rng: &mut Rng) -> Spelling {
    Spelling {
        case: if rng.chance(1, 2) { Case::Lower } else { Case::Upper },
        radix: *rng.pick(&[Radix::Dec, Radix::Dec, Radix::Hex, Radix::Bin]),
        wide: rng.chance(1, 3),
    }
}

fn gen_c01(asm: &Asm, mach: &mut Mach, rng: &mut Rng, sh: &mut Shards, thorough: bool) {
    let ops: [&'static str; 5] = ["add", "adc", "sub", "sbb", "cmp"];
    let all8: Vec<u16> = (0..256).collect();
    // (i) exhaustive byte sweep: 5 ops x 256 a x 2 carry x 2 flag backgrounds x 256 b
    let mut variant = 0usize;
    for op in ops {
        for a in 0..256u16 {
            for cin in 0..2u16 {
                for fin in FINS {
                    let ev = alu_event(asm, mach, op, 8, a, cin, fin, &all8, variant);
                    variant += 1;
                    sh.count("alu8", 256);
                    sh.unit(&[ev]);
                }
            }
        }
    }
    // inc / dec / neg: all byte values, all word values
    for op in ["inc", "dec", "neg"] {
        for fin in [0x0000u16, 0x0001, 0xFFFE, 0xFFFF] {
            let ev = un_event(asm, mach, op, 8, fin, &all8, variant);
            variant += 1;
            sh.count("un8", 256);
            sh.unit(&[ev]);
        }
        for chunk in 0..256u32 {
            let vals: Vec<u16> = (0..256u32).map(|i| (chunk * 256 + i) as u16).collect();
            for fin in [0x0001u16, 0xFFFE] {
                let ev = un_event(asm, mach, op, 16, fin, &vals, variant);
                variant += 1;
                sh.count("un16", 256);
                sh.unit(&[ev]);
            }
        }
    }
    // (iii) word level: lattice x lattice x carry, then seeded random pairs
    let lat = lattice16();
    for op in ops {
        for a in &lat {
            for cin in 0..2u16 {
                let fin = if cin == 0 { 0xFFFE } else { 0x0000 };
                let ev = alu_event(asm, mach, op, 16, *a, cin, fin, &lat, variant);
                variant += 1;
                sh.count("alu16-lattice", lat.len() as u64);
                sh.unit(&[ev]);
            }
        }
    }
    let nrand = if thorough { 20000 } else { 200 };
    for _ in 0..nrand {
        let op = *rng.pick(&ops);
        let a = rng.u16();
        let cin = rng.below(2) as u16;
        let fin = rng.u16();
        let bs: Vec<u16> = (0..256).map(|_| rng.u16()).collect();
        let ev = alu_event(asm, mach, op, 16, a, cin, fin, &bs, variant);
        variant += 1;
        sh.count("alu16-random", 256);
        sh.unit(&[ev]);
    }
    // (ii) every operand form, full-state diff
    let (ps, pm) = if thorough { (40, 6) } else { (4, 1) };
    form_steps_binary(asm, mach, rng, sh, "binarith", &ops, true, ps, pm);
    form_steps_unary(asm, mach, rng, sh, &["inc", "dec", "neg"], ps, pm);
}
