//! Per-property workloads (DESIGN.md section 6).
use crate::alu::*;
use crate::ast::*;
use crate::exec::*;
use crate::forms::*;
use crate::gen::*;
use serde_json::json;

pub fn generate(prop: &str, tier: &str, seed: u64, out: &str, shards: usize, histories: Option<&str>) {
    let thorough = tier == "thorough";
    let mut sh = Shards::new(out, shards);
    let asm = Asm::new();
    let mut mach = Mach::new();
    let mut rng = Rng::new(seed);
    // a clean, known memory for the register-only sweeps
    let _ = mach.reset(&Regs::default(), 0, 0, &[], &[]);
    match prop {
        "C01" => gen_c01(&asm, &mut mach, &mut rng, &mut sh, thorough),
        "C02" => gen_c02(&asm, &mut mach, &mut rng, &mut sh, thorough),
        "C03" => gen_c03(&asm, &mut mach, &mut rng, &mut sh, thorough),
        "C06" => gen_c06(&asm, &mut mach, &mut rng, &mut sh, thorough),
        "C08" | "C12" | "C14" | "C16" | "C17" | "C18" | "C20" => crate::checks3::gen_driver(prop, &mut rng, &mut sh, out, thorough, histories),
        "C04" => crate::checks2::gen_c04(&asm, &mut mach, &mut rng, &mut sh, thorough),
        "C05" => {
            crate::checks2::gen_c05(&asm, &mut mach, &mut rng, &mut sh, thorough);
            if let Some(h) = histories {
                crate::checks2::replay_c05(&asm, &mut mach, &mut sh, h);
            }
        }
        "C10" | "C11" => {
            crate::checks2::gen_shapes(&asm, &mut mach, &mut rng, &mut sh, histories.expect("shape file"), thorough);
            crate::checks3::examples_spelling(&asm, &mut rng, &mut sh);
        }
        "C15" => {
            crate::checks2::gen_fuzz(&mut sh, seed, if thorough { 200_000 } else { 12_000 }, out);
            crate::checks3::gen_c15(&mut rng, &mut sh, out, thorough);
        }
        "C19" => {
            crate::checks2::gen_c19(&asm, &mut rng, &mut sh, histories.expect("schedule file"), thorough);
            crate::checks3::gen_repeats(&mut rng, &mut sh, out, thorough);
        }
        "C13" => {
            crate::checks2::gen_macros(&asm, &mut sh, histories.expect("macro case file"), out);
            let depths: Vec<usize> = if thorough { vec![1, 2, 8, 64, 127, 128, 129, 130, 256, 1024, 4096] } else { vec![1, 2, 8, 32, 64, 127, 128, 129, 200] };
            crate::checks2::gen_chains(&mut sh, &depths);
        }
        "C07" => crate::checks2::gen_c07(&asm, &mut mach, &mut rng, &mut sh, thorough),
        "C09" => crate::checks2::gen_c09(&asm, &mut mach, &mut rng, &mut sh, thorough),
        _ => {
            eprintln!("no generator for {}", prop);
            std::process::exit(2);
        }
    }
    sh.finish(out, json!({"prop": prop, "tier": tier, "seed": seed}));
}

const FINS: [u16; 2] = [0x0000, 0xFFFE];

/// step events over the operand-form alternatives of a two-operand production
fn form_steps_binary(asm: &Asm, mach: &mut Mach, rng: &mut Rng, sh: &mut Shards, cls: &str, ops: &[&'static str], signed_imm: bool, per_simple: usize, per_shape: usize) {
    let shapes = all_shapes();
    for op in ops {
        for w in [8u8, 16u8] {
            for p in PAIRS {
                let has_mem = matches!(p, Pair::RegMem | Pair::MemReg | Pair::MemImm);
                let mut cases: Vec<Option<(Shape, &'static str)>> = Vec::new();
                if has_mem {
                    for s in &shapes {
                        for seg in SEGS {
                            for _ in 0..per_shape {
                                cases.push(Some((*s, seg)));
                            }
                        }
                    }
                } else {
                    for _ in 0..per_simple {
                        cases.push(None);
                    }
                }
                for c in cases {
                    let (dst, src) = pair_operands(p, w, signed_imm, rng, c);
                    let ins = if cls == "logic" {
                        Ins::Logic { op, w, dst, src }
                    } else if cls == "mov" {
                        Ins::Mov { w, dst, src }
                    } else {
                        Ins::BinArith { op, w, dst, src }
                    };
                    let regs = random_regs(rng);
                    let flags = rng.u16();
                    let seed = rng.below(256) as i64;
                    let evs = run_one(asm, mach, &ins, &rand_spelling(rng), &regs, flags, seed, &[], &[]);
                    sh.count(&format!("{}:{}:{:?}", cls, op, p), 1);
                    sh.unit(&evs);
                }
            }
        }
    }
}

fn form_steps_unary(asm: &Asm, mach: &mut Mach, rng: &mut Rng, sh: &mut Shards, ops: &[&'static str], per_simple: usize, per_shape: usize) {
    let shapes = all_shapes();
    for op in ops {
        for w in [8u8, 16u8] {
            for o in ONES {
                let mut cases: Vec<Option<(Shape, &'static str)>> = Vec::new();
                if o == One::Mem {
                    for s in &shapes {
                        for seg in SEGS {
                            for _ in 0..per_shape {
                                cases.push(Some((*s, seg)));
                            }
                        }
                    }
                } else {
                    for _ in 0..per_simple {
                        cases.push(None);
                    }
                }
                for c in cases {
                    let dst = one_operand(o, w, rng, c);
                    let ins = if *op == "not" { Ins::Not { w, dst } } else { Ins::UnArith { op, w, dst } };
                    let regs = random_regs(rng);
                    let flags = rng.u16();
                    let seed = rng.below(256) as i64;
                    let evs = run_one(asm, mach, &ins, &rand_spelling(rng), &regs, flags, seed, &[], &[]);
                    sh.count(&format!("unary:{}:{:?}", op, o), 1);
                    sh.unit(&evs);
                }
            }
        }
    }
}

/// Every boundary value of the operand in every KIND of destination (register, data label, direct address, based-indexed
/// address): the value an instruction finds in a memory operand is otherwise whatever the background memory holds, so a
/// slip that needs one particular value in one particular operand form would never be seen.  `unary`: operations with one
/// operand; `binary`: (class, operations) whose destination takes the lattice value and whose source is a register or immediate.
fn value_lattice_forms(asm: &Asm, mach: &mut Mach, rng: &mut Rng, sh: &mut Shards, unary: &[&'static str], binary: &[(&'static str, &'static str)], stride: usize) {
    use std::sync::atomic::Ordering;
    crate::gen::PLACE.store(false, Ordering::Relaxed);
    const MBU: usize = 1 << 20;
    let mut n = 0usize;
    for w in [8u8, 16u8] {
        let values: Vec<u16> = if w == 8 { lattice8().into_iter().map(|x| x as u16).collect() } else { lattice16() };
        for kind in 0..4usize {
            for (vi, v) in values.iter().enumerate() {
                let mut regs = random_regs(rng);
                regs.ds = 0x1000;
                regs.bx = 0x0100;
                regs.si = 0x0020;
                let (dst, addr): (Opnd, Option<usize>) = match kind {
                    0 => {
                        let r = if w == 8 { "dl" } else { "dx" };
                        regs.set(r, *v);
                        (if w == 8 { Opnd::Reg8("dl") } else { Opnd::Reg16("dx") }, None)
                    }
                    1 => (Opnd::Label { name: "vl32".into(), off: 32 }, Some(0x10000 + 32)),
                    2 => (Opnd::Mem { seg: "", base: "", index: "", disp: 0x300, has_disp: true }, Some(0x10300)),
                    _ => (Opnd::Mem { seg: "", base: "bx", index: "si", disp: 4, has_disp: true }, Some(0x10124)),
                };
                let memset: Vec<(usize, u8)> = match addr { Some(a) => vec![(a, (*v & 0xFF) as u8), ((a + 1) % MBU, (*v >> 8) as u8)], None => vec![] };
                let mut todo: Vec<Ins> = Vec::new();
                for op in unary {
                    todo.push(if *op == "not" { Ins::Not { w, dst: dst.clone() } } else { Ins::UnArith { op, w, dst: dst.clone() } });
                }
                for (cls, op) in binary {
                    // sources: a register holding a boundary value, and an immediate
                    let sv = values[(vi * 7 + n) % values.len()];
                    let sreg = if w == 8 { Opnd::Reg8("ch") } else { Opnd::Reg16("cx") };
                    regs.set(if w == 8 { "ch" } else { "cx" }, sv);
                    let imm = Opnd::Imm(if w == 8 { (sv & 0xFF) as i32 } else { sv as i32 });
                    if *cls == "shift" {
                        // counts around the operand width, as an immediate and in CL (CH holds something else)
                        let wd = w as u32;
                        let counts = [1u32, 2, wd - 1, wd, wd + 1, 2 * wd + 1, 255];
                        let c = counts[(vi + n) % counts.len()];
                        let mn: &'static str = if *op == "sal" && (vi + n) % 2 == 0 { "shl" } else { op };
                        todo.push(Ins::Shift { op, mn, w, dst: dst.clone(), cnt: Cnt::Imm(c) });
                        if kind != 0 || w == 16 {
                            regs.set("cx", 0x5A00 | counts[(vi + n + 3) % counts.len()] as u16);
                            todo.push(Ins::Shift { op, mn, w, dst: dst.clone(), cnt: Cnt::Cl });
                        }
                        continue;
                    }
                    for src in [sreg, imm] {
                        todo.push(match *cls {
                            "binarith" => Ins::BinArith { op, w, dst: dst.clone(), src },
                            _ => Ins::Logic { op, w, dst: dst.clone(), src },
                        });
                    }
                }
                for ins in todo {
                    n += 1;
                    if n % stride != 0 && kind != 1 {
                        continue; // quick tier: every stride-th case, but every case for the data-label destination
                    }
                    let evs = run_one(asm, mach, &ins, &rand_spelling(rng), &regs, rng.u16(), rng.below(256) as i64, &memset, &[]);
                    sh.count("value-lattice-x-operand-kind", 1);
                    sh.unit(&evs);
                }
            }
        }
    }
    crate::gen::PLACE.store(true, Ordering::Relaxed);
}

pub fn rand_spelling(rng: &mut Rng) -> Spelling {
    Spelling {
        case: if rng.chance(1, 2) { Case::Lower } else { Case::Upper },
        radix: *rng.pick(&[Radix::Dec, Radix::Dec, Radix::Hex, Radix::Bin]),
        wide: rng.chance(1, 3),
        nl: false,
    }
}

fn gen_c01(asm: &Asm, mach: &mut Mach, rng: &mut Rng, sh: &mut Shards, thorough: bool) {
    let ops: [&'static str; 5] = ["add", "adc", "sub", "sbb", "cmp"];
    let all8: Vec<u16> = (0..256).collect();
    // (i) exhaustive byte sweep: 5 ops x 256 a x 2 carry x 2 flag backgrounds x 256 b
    let mut variant = 0usize;
    for op in ops {
        for a in 0..256u16 {
            for cin in 0..2u16 {
                for fin in FINS {
                    let ev = alu_event(asm, mach, op, 8, a, cin, fin, &all8, variant);
                    variant += 1;
                    sh.count("alu8", 256);
                    sh.unit(&[ev]);
                }
            }
        }
    }
    // inc / dec / neg: all byte values, all word values
    for op in ["inc", "dec", "neg"] {
        for fin in [0x0000u16, 0x0001, 0xFFFE, 0xFFFF] {
            let ev = un_event(asm, mach, op, 8, fin, &all8, variant);
            variant += 1;
            sh.count("un8", 256);
            sh.unit(&[ev]);
        }
        for chunk in 0..256u32 {
            let vals: Vec<u16> = (0..256u32).map(|i| (chunk * 256 + i) as u16).collect();
            for fin in [0x0001u16, 0xFFFE] {
                let ev = un_event(asm, mach, op, 16, fin, &vals, variant);
                variant += 1;
                sh.count("un16", 256);
                sh.unit(&[ev]);
            }
        }
    }
    // (iii) word level: lattice x lattice x carry, then seeded random pairs
    let lat = lattice16();
    for op in ops {
        for a in &lat {
            for cin in 0..2u16 {
                let fin = if cin == 0 { 0xFFFE } else { 0x0000 };
                let ev = alu_event(asm, mach, op, 16, *a, cin, fin, &lat, variant);
                variant += 1;
                sh.count("alu16-lattice", lat.len() as u64);
                sh.unit(&[ev]);
            }
        }
    }
    let nrand = if thorough { 20000 } else { 200 };
    for _ in 0..nrand {
        let op = *rng.pick(&ops);
        let a = rng.u16();
        let cin = rng.below(2) as u16;
        let fin = rng.u16();
        let bs: Vec<u16> = (0..256).map(|_| rng.u16()).collect();
        let ev = alu_event(asm, mach, op, 16, a, cin, fin, &bs, variant);
        variant += 1;
        sh.count("alu16-random", 256);
        sh.unit(&[ev]);
    }
    // (ii) every operand form, full-state diff
    let (ps, pm) = if thorough { (40, 6) } else { (4, 1) };
    form_steps_binary(asm, mach, rng, sh, "binarith", &ops, true, ps, pm);
    form_steps_unary(asm, mach, rng, sh, &["inc", "dec", "neg"], ps, pm);
    value_lattice_forms(asm, mach, rng, sh, &["inc", "dec", "neg"], &[("binarith", "add"), ("binarith", "adc"), ("binarith", "sub"), ("binarith", "sbb"), ("binarith", "cmp")], if thorough { 1 } else { 3 });
}

pub const SHIFT_MNS: [(&str, &str); 8] = [("sal", "sal"), ("sal", "shl"), ("shr", "shr"), ("sar", "sar"), ("rol", "rol"), ("ror", "ror"), ("rcl", "rcl"), ("rcr", "rcr")];

fn form_steps_shift(asm: &Asm, mach: &mut Mach, rng: &mut Rng, sh: &mut Shards, per_simple: usize, per_shape: usize) {
    let shapes = all_shapes();
    for (op, mn) in SHIFT_MNS {
        for w in [8u8, 16u8] {
            for o in ONES {
                for use_cl in [false, true] {
                    let mut cases: Vec<Option<(Shape, &'static str)>> = Vec::new();
                    if o == One::Mem {
                        for s in &shapes {
                            for seg in SEGS {
                                for _ in 0..per_shape {
                                    cases.push(Some((*s, seg)));
                                }
                            }
                        }
                    } else {
                        for _ in 0..per_simple {
                            cases.push(None);
                        }
                    }
                    for c in cases {
                        let dst = one_operand(o, w, rng, c);
                        let n = match rng.below(4) {
                            0 => rng.below(3) as u32,
                            1 => *rng.pick(&[7u32, 8, 9, 15, 16, 17, 18, 31, 32, 33, 255]),
                            _ => rng.below(256) as u32,
                        };
                        let ins = Ins::Shift { op, mn, w, dst, cnt: if use_cl { Cnt::Cl } else { Cnt::Imm(n) } };
                        let mut regs = random_regs(rng);
                        if use_cl {
                            regs.set("cl", n as u16);
                        }
                        let flags = rng.u16();
                        let seed = rng.below(256) as i64;
                        let evs = run_one(asm, mach, &ins, &rand_spelling(rng), &regs, flags, seed, &[], &[]);
                        sh.count(&format!("shiftform:{}:{:?}:{}", mn, o, if use_cl { "cl" } else { "imm" }), 1);
                        sh.unit(&evs);
                    }
                }
            }
        }
    }
}

fn gen_c02(asm: &Asm, mach: &mut Mach, rng: &mut Rng, sh: &mut Shards, thorough: bool) {
    let lops: [&'static str; 4] = ["and", "or", "xor", "test"];
    let all8: Vec<u16> = (0..256).collect();
    let all_counts: Vec<u16> = (0..256).collect();
    let mut variant = 0usize;
    // logic: all byte pairs under two flag backgrounds (incoming CF/OF set and clear)
    for op in lops {
        for a in 0..256u16 {
            for fin in [0x0000u16, 0xFFFF] {
                let ev = alu_event(asm, mach, op, 8, a, fin & 1, fin, &all8, variant);
                variant += 1;
                sh.count("logic8", 256);
                sh.unit(&[ev]);
            }
        }
    }
    let lat = lattice16();
    for op in lops {
        for a in &lat {
            let fin = if variant % 2 == 0 { 0x0801 } else { 0xF7FE };
            let ev = alu_event(asm, mach, op, 16, *a, fin & 1, fin, &lat, variant);
            variant += 1;
            sh.count("logic16-lattice", lat.len() as u64);
            sh.unit(&[ev]);
        }
    }
    for _ in 0..(if thorough { 8000 } else { 100 }) {
        let op = *rng.pick(&lops);
        let a = rng.u16();
        let fin = rng.u16();
        let bs: Vec<u16> = (0..256).map(|_| rng.u16()).collect();
        let ev = alu_event(asm, mach, op, 16, a, fin & 1, fin, &bs, variant);
        variant += 1;
        sh.count("logic16-random", 256);
        sh.unit(&[ev]);
    }
    // NOT: all bytes, all words
    for fin in [0x0000u16, 0xFFFF] {
        let ev = un_event(asm, mach, "not", 8, fin, &all8, variant);
        variant += 1;
        sh.count("not8", 256);
        sh.unit(&[ev]);
    }
    for chunk in 0..256u32 {
        let vals: Vec<u16> = (0..256u32).map(|i| (chunk * 256 + i) as u16).collect();
        let ev = un_event(asm, mach, "not", 16, if chunk % 2 == 0 { 0x08D5 } else { 0xF72A }, &vals, variant);
        variant += 1;
        sh.count("not16", 256);
        sh.unit(&[ev]);
    }
    // shifts/rotates, bytes: every value x every count 0..255 x carry-in (immediate and CL counts alternate)
    let mut cache = ShiftLines::default();
    for (op, mn) in SHIFT_MNS {
        for v in 0..256u16 {
            for cin in 0..2u16 {
                let fin = if (v + cin) % 2 == 0 { 0x0000 | cin } else { 0xFFFE | cin };
                let use_cl = (v as usize + variant) % 2 == 0;
                let ev = shift_event(asm, mach, &mut cache, op, mn, 8, v, fin, &all_counts, use_cl, variant);
                variant += 1;
                sh.count("shift8", 256);
                sh.unit(&[ev]);
            }
        }
    }
    // words: lattice values x all counts (quick); all 65536 values x count classes (thorough)
    for (op, mn) in SHIFT_MNS {
        for v in &lat {
            for cin in 0..2u16 {
                let fin = if cin == 0 { 0xFFFE } else { 0x0001 };
                let use_cl = variant % 2 == 0;
                let ev = shift_event(asm, mach, &mut cache, op, mn, 16, *v, fin, &all_counts, use_cl, variant);
                variant += 1;
                sh.count("shift16-lattice", 256);
                sh.unit(&[ev]);
            }
        }
    }
    if thorough {
        let mut classes: Vec<u16> = (0..=19).collect();
        classes.extend_from_slice(&[31, 32, 33, 34, 35, 48, 63, 64, 65, 127, 128, 129, 254, 255]);
        for (op, mn) in SHIFT_MNS {
            if mn == "shl" {
                continue;
            }
            for v in 0..=65535u16 {
                let cin = v & 1;
                let fin = if (v >> 1) & 1 == 0 { 0x0000 | cin } else { 0xFFFE | cin };
                let ev = shift_event(asm, mach, &mut cache, op, mn, 16, v, fin, &classes, v % 3 == 0, variant);
                variant += 1;
                sh.count("shift16-all", classes.len() as u64);
                sh.unit(&[ev]);
            }
        }
    }
    // operand forms
    let (ps, pm) = if thorough { (30, 4) } else { (3, 1) };
    form_steps_binary(asm, mach, rng, sh, "logic", &lops, false, ps, pm);
    form_steps_unary(asm, mach, rng, sh, &["not"], ps, pm);
    value_lattice_forms(asm, mach, rng, sh, &["not"], &[("logic", "and"), ("logic", "or"), ("logic", "xor"), ("logic", "test"),
        ("shift", "sal"), ("shift", "shr"), ("shift", "sar"), ("shift", "rol"), ("shift", "ror"), ("shift", "rcl"), ("shift", "rcr")], if thorough { 1 } else { 3 });
    form_steps_shift(asm, mach, rng, sh, ps.min(4), if thorough { 1 } else { 0 });
    if !thorough {
        // one pass over the memory shapes with a random shift mnemonic each
        let shapes = all_shapes();
        for s in &shapes {
            for seg in SEGS {
                for w in [8u8, 16u8] {
                    let (op, mn) = *rng.pick(&SHIFT_MNS);
                    let dst = mem_of(s, seg, rng);
                    let use_cl = rng.chance(1, 2);
                    let n = rng.below(20) as u32;
                    let ins = Ins::Shift { op, mn, w, dst, cnt: if use_cl { Cnt::Cl } else { Cnt::Imm(n) } };
                    let mut regs = random_regs(rng);
                    if use_cl {
                        regs.set("cl", n as u16);
                    }
                    let evs = run_one(asm, mach, &ins, &rand_spelling(rng), &regs, rng.u16(), rng.below(256) as i64, &[], &[]);
                    sh.count("shiftform:mem-shapes", 1);
                    sh.unit(&evs);
                }
            }
        }
    }
}

fn gen_c03(asm: &Asm, mach: &mut Mach, rng: &mut Rng, sh: &mut Shards, thorough: bool) {
    let mops: [&'static str; 4] = ["mul", "imul", "div", "idiv"];
    let all8: Vec<u16> = (0..256).collect();
    let lat = lattice16();
    let mut variant = 0usize;
    // byte forms: AX x all 256 operands
    let axs: Vec<u16> = if thorough { (0..=65535u16).collect() } else {
        let mut v = lat.clone();
        for _ in 0..300 { v.push(rng.u16()); }
        v
    };
    for op in mops {
        for ax in &axs {
            let fin = if variant % 2 == 0 { 0x0000 } else { 0xFFFF };
            let ev = muldiv_event(asm, mach, op, 8, *ax, 0x5A5A, fin, &all8, variant);
            variant += 1;
            sh.count("muldiv8", 256);
            sh.unit(&[ev]);
        }
    }
    // word forms: (DX, AX) lattice pairs x operand lattice, then random 48-bit triples
    let small: Vec<u16> = vec![0, 1, 2, 0x7F, 0x80, 0xFF, 0x100, 0x7FFF, 0x8000, 0x8001, 0xFFFE, 0xFFFF, 0x1234, 10, 100];
    for op in mops {
        for dx in &small {
            for ax in &small {
                let fin = if variant % 2 == 0 { 0x0000 } else { 0xFFFF };
                let ev = muldiv_event(asm, mach, op, 16, *ax, *dx, fin, &lat, variant);
                variant += 1;
                sh.count("muldiv16-lattice", lat.len() as u64);
                sh.unit(&[ev]);
            }
        }
    }
    for _ in 0..(if thorough { 8000 } else { 200 }) {
        let op = *rng.pick(&mops);
        // bias dx so that quotients sometimes fit
        let dx = match rng.below(4) { 0 => 0, 1 => rng.below(16) as u16, 2 => 0xFFFF - rng.below(16) as u16, _ => rng.u16() };
        let ax = rng.u16();
        let vs: Vec<u16> = (0..256).map(|_| if rng.chance(1, 4) { rng.w16() } else { rng.u16() }).collect();
        let ev = muldiv_event(asm, mach, op, 16, ax, dx, rng.u16(), &vs, variant);
        variant += 1;
        sh.count("muldiv16-random", 256);
        sh.unit(&[ev]);
    }
    // adjusts and sign extensions: all 2^16 AX x {AF,CF}
    for op in ["aaa", "aas", "daa", "das", "aam", "aad", "cbw", "cwd"] {
        for (k, fin) in [0x0000u16, 0x0001, 0x0010, 0x0011, 0xFFEE, 0xFFEF, 0xFFFE, 0xFFFF].iter().enumerate() {
            if !thorough && k >= 4 && (op == "cbw" || op == "cwd") {
                continue;
            }
            for chunk in 0..256u32 {
                if !thorough && k >= 4 && chunk % 8 != 0 {
                    continue;
                }
                let vals: Vec<u16> = (0..256u32).map(|i| (chunk * 256 + i) as u16).collect();
                let ev = adjust_event(asm, mach, op, *fin, 0xA5A5 ^ (chunk as u16), &vals);
                sh.count("adjust", 256);
                sh.unit(&[ev]);
            }
        }
    }
    // operand forms
    let (ps, pm) = if thorough { (30, 4) } else { (3, 1) };
    form_steps_unary(asm, mach, rng, sh, &mops, ps, pm);
    value_lattice_forms(asm, mach, rng, sh, &mops, &[], if thorough { 1 } else { 2 });
}

pub const JCC_SPELLINGS: [&str; 31] = ["jmp", "ja", "jnbe", "jae", "jnb", "jb", "jnae", "jbe", "jna", "jc", "je", "jz", "jg", "jnle", "jge", "jnl", "jl", "jnge", "jle", "jng", "jnc", "jne", "jnz", "jno", "jnp", "jpo", "jns", "jo", "jp", "jpe", "js"];
pub const CX_SPELLINGS: [&str; 6] = ["jcxz", "loop", "loope", "loopz", "loopne", "loopnz"];

fn gen_c06(asm: &Asm, mach: &mut Mach, rng: &mut Rng, sh: &mut Shards, thorough: bool) {
    // every spelling in both cases x all 2^16 flag words
    for mn in JCC_SPELLINGS {
        for upper in [false, true] {
            for chunk in 0..256u32 {
                let fs: Vec<u16> = (0..256u32).map(|i| (chunk * 256 + i) as u16).collect();
                let cx = if chunk % 2 == 0 { 0 } else { 0x1234 };
                let ev = jcc_event(asm, mach, mn, upper, cx, &fs, (chunk % 3) as usize);
                sh.count("jcc-flags", 256);
                sh.unit(&[ev]);
            }
        }
    }
    // CX-dependent instructions: all 2^16 CX x ZF (x two flag backgrounds)
    for mn in CX_SPELLINGS {
        for upper in [false, true] {
            for f in [0x0000u16, 0x0040, 0xFFBF, 0xFFFF] {
                for chunk in 0..256u32 {
                    let cxs: Vec<u16> = (0..256u32).map(|i| (chunk * 256 + i) as u16).collect();
                    let ev = loopcx_event(asm, mach, mn, upper, f, &cxs, (chunk % 3) as usize);
                    sh.count("cx-dependent", 256);
                    sh.unit(&[ev]);
                }
            }
        }
    }
    // the CX-dependent ones also under all flag words for a few CX values
    for mn in CX_SPELLINGS {
        for cx in [0u16, 1, 2, 0xFFFF] {
            for chunk in 0..256u32 {
                if !thorough && chunk % 16 != 0 {
                    continue;
                }
                let fs: Vec<u16> = (0..256u32).map(|i| (chunk * 256 + i) as u16).collect();
                let ev = jcc_event(asm, mach, mn, false, cx, &fs, 1);
                sh.count("cx-flags", 256);
                sh.unit(&[ev]);
            }
        }
    }
    // full-state step events on a stratified sample
    let n = if thorough { 20000 } else { 1500 };
    for k in 0..n {
        let mn: &'static str = if k % 5 == 0 { *rng.pick(&CX_SPELLINGS) } else { *rng.pick(&JCC_SPELLINGS) };
        let target = rng.below(4) as usize;
        let ins = Ins::Jcc { mn, label: format!("t{}", rng.below(100)), target };
        let mut regs = random_regs(rng);
        if rng.chance(1, 3) {
            regs.cx = *rng.pick(&[0u16, 1, 2, 0xFFFF]);
        }
        let evs = run_one(asm, mach, &ins, &rand_spelling(rng), &regs, rng.u16(), rng.below(256) as i64, &[], &[]);
        sh.count("jcc-step", 1);
        sh.unit(&evs);
    }
}
