//! Random structured programs for the driver-level checks (C08, C16, C17, C18, C20, C12).
//! Termination is guaranteed by construction: jumps go forward, loops are counted in CX with
//! bodies that do not touch CX, procedures only call procedures defined earlier.
use crate::ast::*;
use crate::cli::*;
use crate::forms::*;
use crate::gen::*;

pub struct Knobs {
    pub procs: usize,
    pub blocks: usize,
    pub prints: bool,
    pub int3: bool,
    pub services: bool,
    pub trap: bool,
    pub loops: bool,
    pub div: bool,
    pub data: bool,
    pub macros: bool,
}

impl Knobs {
    pub fn control() -> Knobs {
        Knobs { procs: 3, blocks: 10, prints: true, int3: false, services: false, trap: false, loops: true, div: false, data: true, macros: true }
    }
}

pub struct Gen<'a> {
    pub rng: &'a mut Rng,
    pub labels: usize,
    pub data_labels: Vec<(String, u8)>, // name, element width
    /// macro library in scope: 0 = none, otherwise the templates of `macro_defs`
    pub macros: bool,
}

/// the macro library used by generated programs (definitions as written in the source)
pub fn macro_defs() -> Vec<String> {
    vec![
        "macro Mtwice(r) -> inc r inc r <-".to_string(),
        "MACRO Mset(r, n) -> mov r, n test r, r <-".to_string(),
        "macro Mshow(r) -> Mset(r, 7) print reg <-".to_string(),
        "macro Mnest(q) -> Mtwice(q) stc Mtwice(q) <-".to_string(),
        "macro Mapply(k, q) -> k (q) clc <-".to_string(),
        "macro Mbrk(_) -> nop int 3 <-".to_string(),
        "macro Mdeep(r) -> Mnest(r) Mshow(r) <-".to_string(),
    ]
}

fn inc16(r: &'static str) -> Ins {
    Ins::UnArith { op: "inc", w: 16, dst: Opnd::Reg16(r) }
}

const SAFE16: [&str; 5] = ["ax", "bx", "dx", "si", "di"];
const SAFE8: [&str; 6] = ["al", "ah", "bl", "bh", "dl", "dh"];

impl<'a> Gen<'a> {
    pub fn new(rng: &'a mut Rng) -> Gen<'a> {
        Gen { rng, labels: 0, data_labels: Vec::new(), macros: false }
    }
    pub fn fresh(&mut self, p: &str) -> String {
        self.labels += 1;
        // mixed case on purpose: label names are case-sensitive and must never look like a keyword
        format!("{}_{}{}", p, if self.labels % 2 == 0 { "L" } else { "k" }, self.labels)
    }
    fn reg(&mut self, w: u8) -> Opnd {
        if w == 8 { Opnd::Reg8(*self.rng.pick(&SAFE8)) } else { Opnd::Reg16(*self.rng.pick(&SAFE16)) }
    }
    fn memop(&mut self, w: u8) -> Opnd {
        if !self.data_labels.is_empty() && self.rng.chance(2, 3) {
            let cands: Vec<(String, u8)> = self.data_labels.iter().filter(|(_, lw)| *lw >= w).cloned().collect();
            if !cands.is_empty() {
                let (n, _) = self.rng.pick(&cands).clone();
                return Opnd::Label { name: n, off: 0 };
            }
        }
        // a scratch area well above the data and below the stack
        Opnd::Mem { seg: "", base: "", index: "", disp: 0x4000 + self.rng.below(64) as i32, has_disp: true }
    }
    /// one instruction that terminates with NEXT and leaves CX, SP, SS and TF alone
    pub fn safe_ins(&mut self, allow_div: bool) -> Ins {
        let w: u8 = if self.rng.chance(1, 2) { 8 } else { 16 };
        match self.rng.below(if allow_div { 15 } else { 14 }) {
            0 | 1 => Ins::Mov { w, dst: self.reg(w), src: rand_imm(self.rng, w, true) },
            2 => {
                let op = *self.rng.pick(&["add", "adc", "sub", "sbb", "cmp"]);
                let src = if self.rng.chance(1, 2) { self.reg(w) } else { rand_imm(self.rng, w, true) };
                Ins::BinArith { op, w, dst: self.reg(w), src }
            }
            3 => {
                let op = *self.rng.pick(&["add", "sub", "cmp"]);
                if self.rng.chance(1, 2) { Ins::BinArith { op, w, dst: self.memop(w), src: self.reg(w) } } else { Ins::BinArith { op, w, dst: self.reg(w), src: self.memop(w) } }
            }
            4 => {
                let op = *self.rng.pick(&["and", "or", "xor", "test"]);
                let src = if self.rng.chance(1, 2) { self.reg(w) } else { rand_imm(self.rng, w, false) };
                Ins::Logic { op, w, dst: self.reg(w), src }
            }
            5 => Ins::UnArith { op: *self.rng.pick(&["inc", "dec", "neg"]), w, dst: if self.rng.chance(1, 3) { self.memop(w) } else { self.reg(w) } },
            6 => {
                let (op, mn) = *self.rng.pick(&crate::checks::SHIFT_MNS);
                Ins::Shift { op, mn, w, dst: self.reg(w), cnt: Cnt::Imm(self.rng.below(10) as u32) }
            }
            7 => if self.rng.chance(1, 2) { Ins::Mov { w, dst: self.memop(w), src: self.reg(w) } } else { Ins::Mov { w, dst: self.reg(w), src: self.memop(w) } },
            8 => Ins::Xchg { w, a: self.reg(w), b: self.reg(w) },
            9 => Ins::Ctl { op: *self.rng.pick(&["stc", "clc", "cmc", "std", "cld", "sti", "cli", "nop"]) },
            10 => Ins::Adjust { op: *self.rng.pick(&["cbw", "cwd", "aaa", "aas", "daa", "das", "aam", "aad"]) },
            11 => Ins::FlagsX { op: *self.rng.pick(&["lahf", "sahf"]) },
            12 => Ins::UnArith { op: *self.rng.pick(&["mul", "imul"]), w, dst: self.reg(w) },
            13 => Ins::Not { w, dst: self.reg(w) },
            _ => Ins::UnArith { op: *self.rng.pick(&["div", "idiv"]), w, dst: self.reg(w) },
        }
    }
    /// a use of one of the library macros with the instructions it stands for
    pub fn macro_use(&mut self, allow_print: bool, allow_int3: bool) -> Item {
        let r: &'static str = *self.rng.pick(&SAFE16);
        let twice = |r: &'static str| vec![inc16(r), inc16(r)];
        let set = |r: &'static str, n: i32| vec![Ins::Mov { w: 16, dst: Opnd::Reg16(r), src: Opnd::Imm(n) }, Ins::Logic { op: "test", w: 16, dst: Opnd::Reg16(r), src: Opnd::Reg16(r) }];
        let nest = |r: &'static str| {
            let mut v = twice(r);
            v.push(Ins::Ctl { op: "stc" });
            v.extend(twice(r));
            v
        };
        let show = |r: &'static str| {
            let mut v = set(r, 7);
            v.push(Ins::Print { what: PrintWhat::Reg });
            v
        };
        loop {
            match self.rng.below(7) {
                0 => return Item::Use { text: format!("Mtwice({})", r), expands: twice(r) },
                1 => {
                    let n = self.rng.below(60000) as i32;
                    return Item::Use { text: format!("Mset ( {} , {} )", r, n), expands: set(r, n) };
                }
                2 if allow_print => return Item::Use { text: format!("Mshow({})", r), expands: show(r) },
                3 => return Item::Use { text: format!("Mnest({})", r), expands: nest(r) },
                4 => {
                    let mut v = twice(r);
                    v.push(Ins::Ctl { op: "clc" });
                    return Item::Use { text: format!("Mapply(Mtwice, {})", r), expands: v };
                }
                5 if allow_int3 => return Item::Use { text: "Mbrk(_)".to_string(), expands: vec![Ins::Ctl { op: "nop" }, Ins::Int { n: 3 }] },
                6 if allow_print => {
                    let mut v = nest(r);
                    v.extend(show(r));
                    return Item::Use { text: format!("Mdeep({})", r), expands: v };
                }
                _ => {}
            }
        }
    }
    pub fn print_stmt(&mut self) -> Ins {
        let what = match self.rng.below(6) {
            0 => PrintWhat::Flags,
            1 | 2 => PrintWhat::Reg,
            3 => {
                let a = self.rng.below(0x40) as u32;
                PrintWhat::Range(a, a + self.rng.below(40) as u32)
            }
            4 => PrintWhat::Span(0x4000 + self.rng.below(16) as u32, self.rng.below(36) as u32),
            _ => PrintWhat::DsSpan(self.rng.below(36) as u32),
        };
        Ins::Print { what }
    }
    pub fn data_section(&mut self) -> Vec<DataItem> {
        let mut v = Vec::new();
        let n = self.rng.below(6) as usize;
        for _ in 0..n {
            let dir: &'static str = if self.rng.chance(1, 2) { "db" } else { "dw" };
            let w: u8 = if dir == "db" { 8 } else { 16 };
            let label = if self.rng.chance(3, 4) {
                let l = self.fresh("d");
                self.data_labels.push((l.clone(), w));
                Some(l)
            } else {
                None
            };
            let form = match self.rng.below(4) {
                0 => DataForm::Num(match rand_imm(self.rng, w, true) { Opnd::Imm(x) => x, _ => 0 }),
                1 => DataForm::Zero(1 + self.rng.below(6) as u32),
                2 => DataForm::Fill(match rand_imm(self.rng, w, true) { Opnd::Imm(x) => x, _ => 0 }, 1 + self.rng.below(5) as u32),
                _ => DataForm::Str(self.rng.pick(&["a", "hello", "Hi there", "x y", "0123456789", "A;B"]).to_string().replace(';', ":")),
            };
            v.push(DataItem::Def { label, dir, form });
        }
        v
    }
    /// a sequence of blocks; `procs` = names of procedures that may be called
    pub fn blocks(&mut self, n: usize, k: &Knobs, procs: &[String], in_loop: bool, in_proc: bool) -> Vec<Item> {
        let mut out: Vec<Item> = Vec::new();
        let mut pending: Vec<(String, usize)> = Vec::new(); // forward labels still to be placed: (name, blocks to go)
        for _ in 0..n {
            // place due labels
            let mut keep = Vec::new();
            for (name, left) in pending.drain(..) {
                if left == 0 { out.push(Item::Label(name)); } else { keep.push((name, left - 1)); }
            }
            pending = keep;
            match self.rng.below(12) {
                0 | 1 | 2 | 3 => out.push(Item::Ins(self.safe_ins(k.div))),
                4 | 5 => {
                    // forward jump over 0..3 blocks
                    let l = self.fresh("j");
                    let mn: &'static str = if self.rng.chance(1, 4) { "jmp" } else { *self.rng.pick(&crate::checks::JCC_SPELLINGS) };
                    out.push(Item::Ins(Ins::Jcc { mn, label: l.clone(), target: 0 }));
                    pending.push((l, self.rng.below(3) as usize));
                }
                6 if k.loops && !in_loop => {
                    let l = self.fresh("lp");
                    let trip = 1 + self.rng.below(4) as i32;
                    if in_proc {
                        // procedures may be called from inside a counted loop: preserve the caller's CX
                        out.push(Item::Ins(Ins::Push { src: Opnd::Reg16("cx") }));
                    }
                    out.push(Item::Ins(Ins::Mov { w: 16, dst: Opnd::Reg16("cx"), src: Opnd::Imm(trip) }));
                    out.push(Item::Label(l.clone()));
                    let nb = 1 + self.rng.below(3) as usize;
                    let body = self.blocks(nb, k, procs, true, in_proc);
                    out.extend(body);
                    let mn: &'static str = *self.rng.pick(&["loop", "loop", "loope", "loopz", "loopne", "loopnz"]);
                    out.push(Item::Ins(Ins::Jcc { mn, label: l, target: 0 }));
                    if in_proc {
                        out.push(Item::Ins(Ins::Pop { dst: Opnd::Reg16("cx") }));
                    }
                }
                7 if !procs.is_empty() => {
                    let p = self.rng.pick(procs).clone();
                    out.push(Item::Ins(Ins::Call { name: p, target: 0 }));
                }
                8 if k.prints && !in_proc => out.push(Item::Ins(self.print_stmt())),
                9 if k.int3 => out.push(Item::Ins(Ins::Int { n: 3 })),
                11 if self.macros => {
                    let u = self.macro_use(k.prints && !in_proc, k.int3);
                    out.push(u);
                }
                6 if !in_loop && self.rng.chance(1, 2) => {
                    // a string instruction, plain or repeated: sets up its own registers
                    let (op, rep, repmn) = *self.rng.pick(&crate::checks2::STR_COMBOS);
                    let w: u8 = if self.rng.chance(1, 2) { 8 } else { 16 };
                    if in_proc {
                        out.push(Item::Ins(Ins::Push { src: Opnd::Reg16("cx") }));
                    }
                    out.push(Item::Ins(Ins::Mov { w: 16, dst: Opnd::Reg16("si"), src: Opnd::Imm(0x4000 + self.rng.below(32) as i32) }));
                    out.push(Item::Ins(Ins::Mov { w: 16, dst: Opnd::Reg16("di"), src: Opnd::Imm(0x4020 + self.rng.below(32) as i32) }));
                    out.push(Item::Ins(Ins::Mov { w: 16, dst: Opnd::Reg16("cx"), src: Opnd::Imm(self.rng.below(5) as i32) }));
                    if self.rng.chance(1, 3) {
                        out.push(Item::Ins(Ins::Ctl { op: "std" }));
                    }
                    out.push(Item::Ins(Ins::Str { op, w, rep, repmn }));
                    out.push(Item::Ins(Ins::Ctl { op: "cld" }));
                    if in_proc {
                        out.push(Item::Ins(Ins::Pop { dst: Opnd::Reg16("cx") }));
                    }
                }
                10 => {
                    // a label nobody jumps to, or a backward-looking label (already passed) is harmless
                    let l = self.fresh("u");
                    out.push(Item::Label(l));
                }
                _ => out.push(Item::Ins(self.safe_ins(k.div))),
            }
        }
        for (name, _) in pending {
            out.push(Item::Label(name));
        }
        out
    }
    pub fn program(&mut self, k: &Knobs) -> Program {
        self.labels = 0;
        self.data_labels.clear();
        let data = if k.data { self.data_section() } else { Vec::new() };
        let mut items: Vec<Item> = Vec::new();
        self.macros = k.macros && self.rng.chance(1, 2);
        if self.macros {
            for d in macro_defs() {
                items.push(Item::Raw(d));
            }
        }
        let mut procs: Vec<String> = Vec::new();
        let nprocs = self.rng.below(k.procs as u64 + 1) as usize;
        let procs_first = self.rng.chance(2, 3);
        let mut proc_items: Vec<Item> = Vec::new();
        for _ in 0..nprocs {
            let name = self.fresh("p");
            let nb = 1 + self.rng.below(4) as usize;
            let mut body = self.blocks(nb, k, &procs, false, true);
            if body.iter().all(|i| !matches!(i, Item::Ins(_))) {
                body.push(Item::Ins(Ins::Ctl { op: "nop" }));
            }
            if self.rng.chance(1, 4) {
                // an early written RET behind a conditional jump
                let l = self.fresh("r");
                let mut b2 = vec![Item::Ins(Ins::Jcc { mn: *self.rng.pick(&["jc", "jnz", "js", "jmp"]), label: l.clone(), target: 0 }), Item::Ins(Ins::Ret), Item::Label(l)];
                b2.extend(body);
                body = b2;
            }
            proc_items.push(Item::Proc { name: name.clone(), body });
            procs.push(name);
        }
        let nb = 2 + self.rng.below(k.blocks as u64) as usize;
        if procs_first {
            items.extend(proc_items);
            items.push(Item::Label("start".into()));
            let main = self.blocks(nb, k, &procs, false, false);
            items.extend(main);
            if self.rng.chance(1, 3) {
                items.push(Item::Ins(Ins::Ctl { op: "hlt" }));
            }
        } else {
            // procedures after the main code: the main code must end with HLT, and calls need the
            // procedure to be declared first, so main cannot call them; a jump over them is exercised instead
            items.push(Item::Label("start".into()));
            let main = self.blocks(nb, k, &[], false, false);
            items.extend(main);
            let over = self.fresh("over");
            items.push(Item::Ins(Ins::Jcc { mn: "jmp", label: over.clone(), target: 0 }));
            items.extend(proc_items);
            items.push(Item::Label(over));
            let nt = 1 + self.rng.below(3) as usize;
            let tail = self.blocks(nt, k, &procs, false, false);
            items.extend(tail);
        }
        Program { data, items, interp: false, stdin: Vec::new(), note: String::new() }
    }
}
