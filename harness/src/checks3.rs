//! Driver-level workloads: programs run through the real binary (hook on), validated by TraceRun.
use crate::ast::*;
use crate::cli::*;
use crate::gen::*;
use crate::progs::*;

pub fn bin_path() -> String {
    std::env::var("VERIF_CLI").unwrap_or_else(|_| "/verif/target/repo/debug/emulator_8086".to_string())
}

fn nexts(rng: &mut Rng, n: usize) -> Vec<ScriptLine> {
    (0..n).map(|_| ScriptLine::next(rng)).collect()
}

fn rand_print_cmd(rng: &mut Rng) -> ScriptLine {
    let what = match rng.below(7) {
        0 => PrintWhat::Flags,
        1 => PrintWhat::Reg,
        2 => {
            let a = rng.below(0x5000) as u32;
            PrintWhat::Range(a, a + rng.below(40) as u32)
        }
        3 => PrintWhat::Span(rng.below(0x5000) as u32, rng.below(36) as u32),
        4 => PrintWhat::DsSpan(rng.below(36) as u32),
        5 => {
            let a = 0xFFFFFu32 - rng.below(48) as u32;
            match rng.below(3) { 0 => PrintWhat::Range(a, 0xFFFFF), 1 => PrintWhat::Span(a, 0xFFFFF - a + rng.below(2) as u32), _ => PrintWhat::Range(a, 0xFFFFF + 1 + rng.below(3) as u32) }
        }
        _ => PrintWhat::Range(5 + rng.below(100) as u32, rng.below(5) as u32), // backwards
    };
    let radix = *rng.pick(&[Radix::Dec, Radix::Dec, Radix::Hex, Radix::Bin]);
    let mut l = ScriptLine::print_radix(what, rng.chance(1, 4), radix);
    // one command in six is padded with blanks that are not ASCII (the line is trimmed as Unicode text)
    if rng.chance(1, 6) {
        l.raw = format!("\u{a0}{}\u{3000} ", l.raw);
    }
    l
}

/// a prompt script: mostly next, some prints and garbage, optionally cut short or ended by quit
pub fn rand_script(rng: &mut Rng, len: usize, end: u64) -> Vec<ScriptLine> {
    let mut v = Vec::new();
    for _ in 0..len {
        match rng.below(10) {
            0 | 1 => v.push(rand_print_cmd(rng)),
            2 => v.push(ScriptLine::garbage(rng)),
            3 if rng.chance(1, 2) => v.push(ScriptLine { raw: rng.pick(&["", " ", "\t", "   "]).to_string(), newline: true, cls: "garbage", what: None }),
            // a line that is not valid UTF-8: reported as unreadable, then the run goes on
            4 if rng.chance(1, 3) => v.push(ScriptLine::unreadable(rng)),
            _ => v.push(ScriptLine::next(rng)),
        }
    }
    match end {
        0 => v.push(ScriptLine::quit(rng)),
        1 => {
            // last line without a newline
            let mut s = ScriptLine::next(rng);
            s.newline = false;
            v.push(s);
        }
        _ => {}
    }
    v
}

fn items_from_json(v: &serde_json::Value) -> Vec<Item> {
    v.as_array().unwrap().iter().map(|it| match it["k"].as_str().unwrap() {
        "label" => Item::Label(it["name"].as_str().unwrap().to_string()),
        "ins" => Item::Ins(crate::checks2::ins_from_json(&it["ast"])),
        "proc" => Item::Proc { name: it["name"].as_str().unwrap().to_string(), body: items_from_json(&it["body"]) },
        k => panic!("harness: item kind {}", k),
    }).collect()
}

/// spec -> impl: programs (and prompt scripts) enumerated by TLC (MC_Driver generator configs)
pub fn programs_from_tlc(path: &str, rng: &mut Rng) -> Vec<(Program, Layout)> {
    programs_from_tlc_for(path, rng, false)
}

/// `valid_shapes`: the file holds well-formed instruction shapes (spec/MC_Asm.tla); one representative of every
/// production (mnemonic x operand kinds x width x count kind) is put into a small program in front of two print
/// statements, so that the source position recorded for every kind of instruction is exercised (C16)
pub fn programs_from_tlc_for(path: &str, rng: &mut Rng, valid_shapes: bool) -> Vec<(Program, Layout)> {
    let text = std::fs::read_to_string(path).expect("program file");
    let mut v = Vec::new();
    let mut seen: std::collections::HashSet<String> = std::collections::HashSet::new();
    for line in text.lines() {
        if line.trim().is_empty() {
            continue;
        }
        let j: serde_json::Value = serde_json::from_str(line).expect("program json");
        if valid_shapes && j.get("cls").is_some() {
            let cls = j["cls"].as_str().unwrap_or("");
            if matches!(cls, "jcc" | "call" | "ret" | "int") || (cls == "ctl" && j["op"] == "hlt") {
                continue;
            }
            let kind = |f: &str| -> String {
                let o = &j[f];
                if o.is_null() { return String::new(); }
                let mut k = o["k"].as_str().unwrap_or("").to_string();
                if k == "sreg" || (k.starts_with("reg") && cls == "push") || (k.starts_with("reg") && cls == "pop") { k.push_str(o["r"].as_str().unwrap_or("")); }
                if k == "mem" { k.push_str(if o["form"]["seg"].as_str().unwrap_or("").is_empty() { "" } else { "+seg" }); }
                k
            };
            let key = format!("{}|{}|{}|{}|{}|{}|{}|{}|{}|{}", cls, j["op"], j["mn"], j["w"], kind("dst"), kind("src"), kind("a"), kind("b"), j["cnt"]["k"], j["rep"]);
            if !seen.insert(key) {
                continue;
            }
            let ins = crate::checks2::ins_from_json(&j);
            let data = vec![DataItem::Def { label: None, dir: "db", form: DataForm::Zero(4) }, DataItem::Def { label: Some("vdat".into()), dir: "dw", form: DataForm::Num(5) }];
            let q = v.len();
            let mut items = vec![Item::Label("vtgt".into()), Item::Proc { name: "vprc".into(), body: vec![Item::Ins(Ins::Ctl { op: "nop" })] }, Item::Label("start".into())];
            if q % 3 == 0 { items.push(Item::Ins(Ins::Ctl { op: "nop" })); }
            items.push(Item::Ins(ins));
            items.push(Item::Ins(Ins::Print { what: PrintWhat::Flags }));
            items.push(Item::Ins(Ins::UnArith { op: "inc", w: 16, dst: Opnd::Reg16("dx") }));
            items.push(Item::Ins(Ins::Print { what: PrintWhat::Reg }));
            let mut lay = Layout::plain();
            lay.force = Some(Spelling { case: if q % 2 == 0 { Case::Lower } else { Case::Upper }, radix: [Radix::Dec, Radix::Hex, Radix::Bin][q % 3], wide: q % 5 == 0, nl: false });
            v.push((Program { data, items, interp: q % 7 == 0, stdin: if q % 7 == 0 { nexts(rng, 12) } else { Vec::new() }, note: "shape-then-print".into() }, lay));
            continue;
        }
        if j.get("cls").is_some() {
            // a single (ill-formed) instruction shape from spec/MC_Asm.tla: wrap it in a minimal program
            let ins = crate::checks2::ins_from_json(&j);
            let data = vec![DataItem::Def { label: None, dir: "db", form: DataForm::Zero(4) }, DataItem::Def { label: Some("vdat".into()), dir: "dw", form: DataForm::Num(5) }];
            let items = vec![Item::Label("vtgt".into()), Item::Proc { name: "vprc".into(), body: vec![Item::Ins(Ins::Ctl { op: "nop" })] }, Item::Label("start".into()), Item::Ins(Ins::Ctl { op: "nop" }), Item::Bad(ins, String::new())];
            let mut lay = Layout::plain();
            let q = v.len();
            lay.force = Some(Spelling { case: if q % 2 == 0 { Case::Lower } else { Case::Upper }, radix: [Radix::Dec, Radix::Hex, Radix::Bin][q % 3], wide: q % 5 == 0, nl: false });
            v.push((Program { data, items, interp: false, stdin: Vec::new(), note: "tlc-badshape".into() }, lay));
            continue;
        }
        let stdin: Vec<ScriptLine> = j["stdin"].as_array().unwrap().iter().map(|s| {
            let cls: &'static str = match s["cls"].as_str().unwrap() { "next" => "next", "quit" => "quit", "print" => "print", "unreadable" => "unreadable", _ => "garbage" };
            // the model writes an unreadable line as "?": here it becomes a line holding the byte FFh (not valid UTF-8)
            let raw = if cls == "unreadable" { "n\u{f8ff}".to_string() } else { s["raw"].as_str().unwrap().trim_end_matches('\n').to_string() };
            let what = if cls == "print" { Some(PrintWhat::Flags) } else { None };
            ScriptLine { raw, newline: true, cls, what }
        }).collect();
        let p = Program { data: Vec::new(), items: items_from_json(&j["items"]), interp: j["interp"].as_bool().unwrap(), stdin, note: "tlc".into() };
        let lay = if rng.chance(1, 2) { Layout::plain() } else { Layout::random(rng) };
        v.push((p, lay));
    }
    v
}

pub fn gen_driver(prop: &str, rng: &mut Rng, sh: &mut Shards, out: &str, thorough: bool, tlc_programs: Option<&str>) {
    let bin = bin_path();
    let dir = format!("{}/runs", out);
    let mut progs: Vec<(Program, Layout)> = Vec::new();
    if let Some(path) = tlc_programs {
        let v = programs_from_tlc_for(path, rng, prop == "C16");
        sh.count("tlc-programs", v.len() as u64);
        progs.extend(v);
    }
    let scale = if thorough { 10 } else { 1 };
    match prop {
        "C08" => {
            for i in 0..(300 * scale) {
                let mut g = Gen::new(rng);
                let mut k = Knobs::control();
                k.blocks = 4 + (i % 12);
                k.div = i % 10 == 0;
                let p = g.program(&k);
                let lay = if i % 3 == 0 { Layout::plain() } else { Layout::random(rng) };
                progs.push((p, lay));
            }
        }
        "C16" => {
            for i in 0..(240 * scale) {
                let mut g = Gen::new(rng);
                let mut k = Knobs::control();
                k.int3 = i % 2 == 0;
                k.div = i % 3 == 0;
                k.blocks = 3 + (i % 8);
                let mut p = g.program(&k);
                p.interp = i % 4 == 1;
                p.stdin = nexts(rng, 400);
                progs.push((p, Layout::random(rng)));
            }
            // a syntax error at every token position of a small program: a stray character, a missing operand,
            // a doubled comma, the file ending in the middle of an instruction
            let lines_ok = ["mov ax, 5", "add bx, ax", "xchg cl, dh", "inc word [bx, si, 2]", "print reg", "shl dx, 3"];
            for (li, victim) in lines_ok.iter().enumerate() {
                let toks: Vec<&str> = victim.split(' ').collect();
                for ti in 0..toks.len() {
                    for kind in 0..3 {
                        let mut tk: Vec<String> = toks.iter().map(|s| s.to_string()).collect();
                        let needle: String = match kind {
                            0 => { tk[ti] = format!("{}@", tk[ti]); "@".to_string() }
                            1 => { tk.insert(ti, "$".to_string()); "$".to_string() }
                            _ => { tk[ti] = format!("#{}", tk[ti]); "#".to_string() }
                        };
                        let bad = tk.join(" ");
                        let mut items: Vec<Item> = vec![Item::Label("start".into())];
                        for (k, l) in lines_ok.iter().enumerate() {
                            if k == li { items.push(Item::Bad(Ins::Unsupported { text: bad.clone() }, needle.clone())); } else { items.push(Item::Ins(Ins::Unsupported { text: l.to_string() })); }
                        }
                        let mut lay = Layout::random(rng);
                        lay.vary_spelling = false;
                        lay.label_same_line = false;
                        progs.push((Program { data: Vec::new(), items, interp: false, stdin: Vec::new(), note: "syntax-stray-character".into() }, lay));
                    }
                }
                // the file ends inside this instruction (last line, with and without a final newline)
                for nl in [true, false] {
                    let cut = victim.rfind(' ').unwrap();
                    let mut items: Vec<Item> = vec![Item::Label("start".into())];
                    for l in lines_ok.iter().take(li) { items.push(Item::Ins(Ins::Unsupported { text: l.to_string() })); }
                    items.push(Item::Bad(Ins::Unsupported { text: victim[..cut].trim_end_matches(',').to_string() + if victim[..cut].ends_with(',') { "," } else { "" } }, String::new()));
                    let mut lay = Layout::plain();
                    lay.trailing_newline = nl;
                    progs.push((Program { data: Vec::new(), items, interp: false, stdin: Vec::new(), note: "syntax-truncated".into() }, lay));
                }
            }
            // the file ends after a token of one character that stands alone on the last line: the end-of-input diagnostic
            // cites that line (the last thing that was read), not the line before it
            for (head, tail) in [("mov ax", ","), ("xchg cl", ","), ("shl dx", ","), ("inc word", "["), ("print mem 0", ":")] {
                for nl in [true, false] {
                    let items: Vec<Item> = vec![Item::Label("start".into()), Item::Ins(Ins::Ctl { op: "nop" }), Item::Ins(Ins::Unsupported { text: head.to_string() }), Item::Bad(Ins::Unsupported { text: tail.to_string() }, String::new())];
                    let mut lay = Layout::plain();
                    lay.trailing_newline = nl;
                    progs.push((Program { data: Vec::new(), items, interp: false, stdin: Vec::new(), note: "syntax-truncated-last-line".into() }, lay));
                }
            }
            // the very first line of the file: a message / a prompt / a diagnostic citing line 1 (there is no line end before it)
            for rep in 0..16 {
                let variant = rep % 4;
                let mut items: Vec<Item> = vec![Item::Label("start".into())];
                match variant {
                    0 | 1 => {
                        items.push(Item::Ins(Ins::Print { what: PrintWhat::Flags }));
                        items.push(Item::Ins(Ins::Int { n: 3 }));
                        items.push(Item::Ins(Ins::Print { what: PrintWhat::Reg }));
                    }
                    2 => items.push(Item::Bad(Ins::Unsupported { text: "mov ax@, 5".into() }, "@".into())),
                    _ => {
                        items.push(Item::Bad(Ins::Unsupported { text: "add bx, $ ax".into() }, "$".into()));
                        items.push(Item::Ins(Ins::Ctl { op: "nop" }));
                    }
                }
                let mut lay = Layout::plain();
                lay.label_same_line = true;
                lay.trailing_newline = variant != 2;
                progs.push((Program { data: Vec::new(), items, interp: variant == 1, stdin: nexts(rng, 12), note: format!("first-line-{}", variant) }, lay));
            }
            // an undefined label reached through a macro (also a nested one) is reported at the outermost use
            for (defs, usetext) in [
                (vec!["macro skipto(l) -> jmp l <-"], "skipto(nowhere_X)"),
                (vec!["macro skipto(l) -> jmp l <-", "macro outer(m) -> nop skipto(m) <-"], "outer(nowhere_Y)"),
                (vec!["macro cond(a, b) -> jz a jnz b <-"], "cond(start, nowhere_Z)"),
            ] {
                for pad in 0..3 {
                    let mut items: Vec<Item> = defs.iter().map(|d| Item::Raw(d.to_string())).collect();
                    items.push(Item::Label("start".into()));
                    for _ in 0..pad { items.push(Item::Ins(Ins::Ctl { op: "nop" })); }
                    items.push(Item::Bad(Ins::Unsupported { text: usetext.to_string() }, usetext.split('(').next().unwrap().to_string()));
                    items.push(Item::Ins(Ins::Ctl { op: "nop" }));
                    let mut lay = Layout::random(rng);
                    lay.vary_spelling = false;
                    lay.label_same_line = false;
                    progs.push((Program { data: Vec::new(), items, interp: false, stdin: Vec::new(), note: "undefined-label-in-macro".into() }, lay));
                }
            }
            // diagnostics must cite the offending line: a sample of the C14 mutants
            let muts = c14_programs(rng, 1);
            progs.extend(muts.into_iter().enumerate().filter(|(i, _)| i % 3 == 0).map(|(_, x)| x));
        }
        "C17" => {
            // every flag alone, and every flag alone clear, shown by a print statement and by a prompt command; every
            // register alone holding a value that no other register holds
            let statusbits: [u16; 8] = [0x0001, 0x0004, 0x0010, 0x0040, 0x0080, 0x0200, 0x0400, 0x0800];
            for (bi, b) in statusbits.iter().enumerate() {
                for inv in [false, true] {
                    let w: u16 = if inv { (0x0ED5 & !*b) | 0xF000 } else { *b };
                    let mut items: Vec<Item> = vec![Item::Label("start".into())];
                    items.push(Item::Ins(Ins::Mov { w: 16, dst: Opnd::Reg16("ax"), src: Opnd::Imm(w as i32) }));
                    items.push(Item::Ins(Ins::Push { src: Opnd::Reg16("ax") }));
                    items.push(Item::Ins(Ins::FlagsX { op: "popf" }));
                    items.push(Item::Ins(Ins::Print { what: PrintWhat::Flags }));
                    items.push(Item::Ins(Ins::Int { n: 3 }));
                    items.push(Item::Ins(Ins::Print { what: PrintWhat::Reg }));
                    let stdin = vec![ScriptLine { raw: if bi % 2 == 0 { "print flags".into() } else { "PRINT FLAGS".into() }, newline: true, cls: "print", what: Some(PrintWhat::Flags) }, ScriptLine::next(rng)];
                    progs.push((Program { data: Vec::new(), items, interp: false, stdin, note: format!("one-flag-{}-{}", bi, inv) }, Layout::plain()));
                }
            }
            let regnames = ["ax", "bx", "cx", "dx", "si", "di", "bp", "sp"];
            for (ri, r) in regnames.iter().enumerate() {
                let mut items: Vec<Item> = vec![Item::Label("start".into())];
                items.push(Item::Ins(Ins::Mov { w: 16, dst: Opnd::Reg16(r), src: Opnd::Imm(0xA0B1 + ri as i32 * 0x0101) }));
                items.push(Item::Ins(Ins::Print { what: PrintWhat::Reg }));
                items.push(Item::Ins(Ins::Int { n: 3 }));
                let stdin = vec![ScriptLine { raw: "print reg".into(), newline: true, cls: "print", what: Some(PrintWhat::Reg) }, ScriptLine::next(rng)];
                progs.push((Program { data: Vec::new(), items, interp: false, stdin, note: format!("one-register-{}", r) }, Layout::plain()));
            }
            for (si, sr) in ["ds", "es", "ss"].iter().enumerate() {
                let mut items: Vec<Item> = vec![Item::Label("start".into())];
                items.push(Item::Ins(Ins::Mov { w: 16, dst: Opnd::Reg16("ax"), src: Opnd::Imm(0x1C2D + si as i32 * 0x1111) }));
                items.push(Item::Ins(Ins::Mov { w: 16, dst: Opnd::Sreg(sr), src: Opnd::Reg16("ax") }));
                items.push(Item::Ins(Ins::Mov { w: 16, dst: Opnd::Reg16("ax"), src: Opnd::Imm(0) }));
                items.push(Item::Ins(Ins::Print { what: PrintWhat::Reg }));
                progs.push((Program { data: Vec::new(), items, interp: false, stdin: Vec::new(), note: format!("one-register-{}", sr) }, Layout::plain()));
            }
            // the last byte shown is the last byte of the 1 MB space, one before it, one or two beyond it: by statement
            // and by prompt command, DS-relative with DS far from 0 (seeded change C15-n)
            for seg in [0xFFFFu32, 0xFFF0, 0xFFC1, 0x0000] {
                for d in [-2i64, -1, 0, 1, 2] {
                    let mb: i64 = 1 << 20;
                    let n = mb - (seg as i64) * 16 + d;
                    let a = mb - 33 - (seg as i64 % 5);
                    let mut whats: Vec<PrintWhat> = vec![PrintWhat::Span(a as u32, (mb - a + d) as u32), PrintWhat::Range(a as u32, (mb - 1 + d) as u32)];
                    if n <= 2000 { whats.insert(0, PrintWhat::DsSpan(n as u32)); }
                    let head = |items: &mut Vec<Item>| {
                        items.push(Item::Label("start".into()));
                        items.push(Item::Ins(Ins::Mov { w: 16, dst: Opnd::Reg16("ax"), src: Opnd::Imm(seg as i32) }));
                        items.push(Item::Ins(Ins::Mov { w: 16, dst: Opnd::Sreg("ds"), src: Opnd::Reg16("ax") }));
                        items.push(Item::Ins(Ins::Mov { w: 8, dst: Opnd::Mem { seg: "", base: "", index: "", disp: (n - d - 1).rem_euclid(65536) as i32, has_disp: true }, src: Opnd::Imm(0x5A) }));
                    };
                    for w in whats.iter() {
                        let mut items: Vec<Item> = Vec::new();
                        head(&mut items);
                        items.push(Item::Ins(Ins::Print { what: w.clone() }));
                        items.push(Item::Ins(Ins::Print { what: PrintWhat::Reg }));
                        progs.push((Program { data: Vec::new(), items, interp: false, stdin: Vec::new(), note: "print-top-statement".into() }, Layout::plain()));
                    }
                    let mut items: Vec<Item> = Vec::new();
                    head(&mut items);
                    items.push(Item::Ins(Ins::Int { n: 3 }));
                    items.push(Item::Ins(Ins::Print { what: PrintWhat::Flags }));
                    let mut stdin: Vec<ScriptLine> = whats.iter().enumerate().map(|(k2, w)| ScriptLine::print_radix(w.clone(), k2 % 2 == 1, [Radix::Dec, Radix::Hex, Radix::Bin][k2 % 3])).collect();
                    stdin.push(ScriptLine::next(rng));
                    progs.push((Program { data: Vec::new(), items, interp: false, stdin, note: "print-top-prompt".into() }, Layout::plain()));
                }
            }
            for i in 0..(200 * scale) {
                let mut g = Gen::new(rng);
                let mut k = Knobs::control();
                k.int3 = true;
                k.blocks = 6 + (i % 8);
                let mut p = g.program(&k);
                {
                    // print statements whose constants are written `offset <data label>` (every position of every form)
                    let labs: Vec<String> = p.data.iter().filter_map(|d| match d { DataItem::Def { label: Some(n), .. } => Some(n.clone()), _ => None }).collect();
                    if !labs.is_empty() {
                        let off = |rng: &mut Rng| Addr::Off(rng.pick(&labs).clone());
                        let pos = p.items.iter().position(|x| matches!(x, Item::Label(n) if n == "start")).unwrap() + 1;
                        let rest = p.items.split_off(pos);
                        let forms = [
                            PrintWhat::Sym { form: "range", x: off(rng), y: Some(off(rng)) },
                            PrintWhat::Sym { form: "range", x: Addr::Num(rng.below(4) as u32), y: Some(off(rng)) },
                            PrintWhat::Sym { form: "span", x: off(rng), y: Some(Addr::Num(rng.below(20) as u32)) },
                            PrintWhat::Sym { form: "span", x: Addr::Num(rng.below(64) as u32), y: Some(off(rng)) },
                            PrintWhat::Sym { form: "dsspan", x: off(rng), y: None },
                        ];
                        for f in forms.iter() {
                            if rng.chance(1, 2) { p.items.push(Item::Ins(Ins::Print { what: f.clone() })); }
                        }
                        p.items.extend(rest);
                    }
                }
                if i % 2 == 1 {
                    // a data segment away from 0, memory written through it, DS-relative and top-of-memory prints
                    let seg = *rng.pick(&[0x1000u16, 0x1234, 0x8000, 0xF000, 0xFFF0, 0xFFFE, 0xFFFF, 0x0FFF]);
                    let pos = p.items.iter().position(|x| matches!(x, Item::Label(n) if n == "start")).unwrap() + 1;
                    let rest = p.items.split_off(pos);
                    p.items.push(Item::Ins(Ins::Mov { w: 16, dst: Opnd::Reg16("ax"), src: Opnd::Imm(seg as i32) }));
                    p.items.push(Item::Ins(Ins::Mov { w: 16, dst: Opnd::Sreg("ds"), src: Opnd::Reg16("ax") }));
                    for k2 in 0..4 {
                        p.items.push(Item::Ins(Ins::Mov { w: 8, dst: Opnd::Mem { seg: "", base: "", index: "", disp: k2 * 5, has_disp: true }, src: Opnd::Imm(0xA0 + k2) }));
                    }
                    p.items.push(Item::Ins(Ins::Print { what: PrintWhat::DsSpan(*rng.pick(&[0u32, 3, 14, 15, 16, 17, 31, 40])) }));
                    // DS-relative spans whose length needs more than 16 bits: with a high DS they leave the 1 MB space and
                    // must be reported, with a low DS a long dump (up to 64 KiB + 6 bytes) is printed
                    if seg >= 0xF000 {
                        p.items.push(Item::Ins(Ins::Print { what: PrintWhat::DsSpan(*rng.pick(&[0x10000u32, 0x10005, 0x1FFFF, 70000, 0xFFFFF, 0x20003])) }));
                    } else if seg == 0x0FFF || seg == 0x1000 {
                        p.items.push(Item::Ins(Ins::Print { what: PrintWhat::DsSpan(*rng.pick(&[600u32, 1023, 1500, 0x10005])) }));
                    }
                    let top = 0xFFFFFu32;
                    let a = top - rng.below(40) as u32;
                    p.items.push(Item::Ins(Ins::Print { what: PrintWhat::Range(a, top) }));
                    p.items.push(Item::Ins(Ins::Print { what: PrintWhat::Span(a, top - a) }));
                    p.items.push(Item::Ins(Ins::Print { what: PrintWhat::Range(a, a - rng.below(3) as u32) }));
                    p.items.push(Item::Ins(Ins::Int { n: 3 }));
                    p.items.extend(rest);
                }
                // print commands typed at INT 3 prompts
                let mut s = Vec::new();
                for _ in 0..120 {
                    if rng.chance(2, 3) { s.push(rand_print_cmd(rng)); } else { s.push(ScriptLine::next(rng)); }
                }
                s.extend(nexts(rng, 200));
                p.stdin = s;
                progs.push((p, Layout::random(rng)));
            }
        }
        "C20" => {
            for i in 0..(300 * scale) {
                let mut g = Gen::new(rng);
                let mut k = Knobs::control();
                k.int3 = i % 3 == 0;
                k.blocks = 3 + (i % 7);
                let mut p = g.program(&k);
                match i % 3 {
                    0 => p.interp = true,
                    1 => {
                        // trap flag set by POPF at the start (and sometimes cleared again later)
                        let mut pre = vec![Item::Ins(Ins::Mov { w: 16, dst: Opnd::Reg16("ax"), src: Opnd::Imm(0x0100 | (rng.below(256) as i32 & 0xD5)) }), Item::Ins(Ins::Push { src: Opnd::Reg16("ax") }), Item::Ins(Ins::FlagsX { op: "popf" })];
                        let pos = p.items.iter().position(|x| matches!(x, Item::Label(n) if n == "start")).unwrap() + 1;
                        let rest = p.items.split_off(pos);
                        p.items.append(&mut pre);
                        p.items.extend(rest);
                        if rng.chance(1, 2) {
                            p.items.push(Item::Ins(Ins::Mov { w: 16, dst: Opnd::Reg16("ax"), src: Opnd::Imm(0) }));
                            p.items.push(Item::Ins(Ins::Push { src: Opnd::Reg16("ax") }));
                            p.items.push(Item::Ins(Ins::FlagsX { op: "popf" }));
                            p.items.push(Item::Ins(Ins::Ctl { op: "nop" }));
                        }
                    }
                    _ => {}
                }
                let len = match rng.below(4) { 0 => rng.below(6) as usize, 1 => 10 + rng.below(30) as usize, _ => 300 };
                let end = rng.below(4);
                p.stdin = rand_script(rng, len, end);
                // one program in five also reads input through INT 21h (01h and 0Ah): prompt and services then take
                // turns on the same input, whatever the next line is
                if i % 5 == 4 {
                    let pos = p.items.iter().position(|x| matches!(x, Item::Label(n) if n == "start")).unwrap() + 1;
                    let rest = p.items.split_off(pos);
                    p.items.push(Item::Ins(Ins::Mov { w: 16, dst: Opnd::Reg16("ax"), src: Opnd::Imm(0x0100) }));
                    p.items.push(Item::Ins(Ins::Int { n: 0x21 }));
                    p.items.push(Item::Ins(Ins::Mov { w: 16, dst: Opnd::Reg16("dx"), src: Opnd::Imm(0x4000) }));
                    p.items.push(Item::Ins(Ins::Mov { w: 16, dst: Opnd::Reg16("bx"), src: Opnd::Reg16("dx") }));
                    p.items.push(Item::Ins(Ins::Mov { w: 8, dst: Opnd::Mem { seg: "", base: "bx", index: "", disp: 0, has_disp: false }, src: Opnd::Imm(6) }));
                    p.items.push(Item::Ins(Ins::Mov { w: 16, dst: Opnd::Reg16("ax"), src: Opnd::Imm(0x0A00) }));
                    p.items.push(Item::Ins(Ins::Int { n: 0x21 }));
                    p.items.push(Item::Ins(Ins::Print { what: PrintWhat::Range(0x4000, 0x4008) }));
                    p.items.extend(rest);
                }
                progs.push((p, Layout::random(rng)));
            }
            // every way a run ends with code still following (a return with no call pending after falling into a procedure,
            // a divide error, an unsupported service, a halt in the middle): plain, with -i and with the trap flag set, the
            // run ends there in all three and nothing after it is executed or prompted for
            let inc = |r: &'static str| Item::Ins(Ins::UnArith { op: "inc", w: 16, dst: Opnd::Reg16(r) });
            for kind in 0..4 {
                for mode in 0..3 {
                    let mut items: Vec<Item> = vec![Item::Label("start".into())];
                    if mode == 2 {
                        items.push(Item::Ins(Ins::Mov { w: 16, dst: Opnd::Reg16("ax"), src: Opnd::Imm(0x0100) }));
                        items.push(Item::Ins(Ins::Push { src: Opnd::Reg16("ax") }));
                        items.push(Item::Ins(Ins::FlagsX { op: "popf" }));
                    }
                    items.push(inc("si"));
                    match kind {
                        0 => items.push(Item::Proc { name: "mid_P".into(), body: vec![inc("bx")] }),
                        1 => { items.push(Item::Ins(Ins::Mov { w: 16, dst: Opnd::Reg16("cx"), src: Opnd::Imm(0) })); items.push(Item::Ins(Ins::UnArith { op: "div", w: 16, dst: Opnd::Reg16("cx") })); }
                        2 => { items.push(Item::Ins(Ins::Mov { w: 16, dst: Opnd::Reg16("ax"), src: Opnd::Imm(0x7700) })); items.push(Item::Ins(Ins::Int { n: 0x21 })); }
                        _ => items.push(Item::Ins(Ins::Ctl { op: "hlt" })),
                    }
                    items.push(inc("di"));
                    items.push(Item::Ins(Ins::Print { what: PrintWhat::Reg }));
                    items.push(inc("dx"));
                    progs.push((Program { data: Vec::new(), items, interp: mode == 1, stdin: nexts(rng, 30), note: format!("ends-early-{}-{}", kind, mode) }, Layout::plain()));
                }
            }
        }
        "C18" => {
            let mov16 = |r: &'static str, v: u16| Item::Ins(Ins::Mov { w: 16, dst: Opnd::Reg16(r), src: Opnd::Imm(v as i32) });
            let mov8 = |r: &'static str, v: u8| Item::Ins(Ins::Mov { w: 8, dst: Opnd::Reg8(r), src: Opnd::Imm(v as i32) });
            let setseg = |s: &'static str, v: u16| vec![Item::Ins(Ins::Mov { w: 16, dst: Opnd::Reg16("ax"), src: Opnd::Imm(v as i32) }), Item::Ins(Ins::Mov { w: 16, dst: Opnd::Sreg(s), src: Opnd::Reg16("ax") })];
            let line_of = |rng: &mut Rng, len: usize, newline: bool| -> ScriptLine {
                // one line in four mixes in multi-byte characters (2, 3 and 4 bytes of UTF-8): `len` then counts characters,
                // so that buffer capacities fall inside a character as well as between characters
                let wide = rng.chance(1, 4);
                let raw: String = (0..len).map(|i| {
                    if wide && rng.chance(1, 2) { *rng.pick(&['\u{e9}', '\u{df}', '\u{20ac}', '\u{1f600}', '\u{a0}']) }
                    else { (b'a' + ((i as u64 + rng.below(26)) % 26) as u8) as char }
                }).collect();
                ScriptLine { raw, newline, cls: "data", what: None }
            };
            // every supported service under random registers / buffers / stdin shapes
            for i in 0..(260 * scale) {
                let mut items: Vec<Item> = vec![Item::Label("start".into())];
                let mut stdin: Vec<ScriptLine> = Vec::new();
                let nsvc = 1 + rng.below(3) as usize;
                for _ in 0..nsvc {
                    let seg = *rng.pick(&[0u16, 0x0100, 0x1000, 0xF000, 0xFFFF, 0xFFF0, 0xFFEF, 0x8000]);
                    match (i + rng.below(5) as usize) % 5 {
                        0 => {
                            // INT 10h / 0Ah: AL repeated CX times
                            items.push(mov16("cx", *rng.pick(&[0u16, 1, 2, 7, 80, 300])));
                            items.push(mov16("bx", rng.u16()));
                            items.push(mov8("al", *rng.pick(&[b'A', b'z', b' ', b'0', 0x7F, 0x80, 0xE9, 0xFF, b'\n', 9, 0])));
                            items.push(mov8("ah", 0x0A));
                            items.push(Item::Ins(Ins::Int { n: 0x10 }));
                        }
                        1 => {
                            // INT 10h / 13h: DL blanks, then CX bytes at ES:BP
                            items.extend(setseg("es", seg));
                            let bp = match rng.below(4) { 0 => 0xFFF8u16.wrapping_add(rng.below(16) as u16), 1 => rng.below(32) as u16, _ => rng.u16() };
                            items.push(mov16("bp", bp));
                            // put some text there first (through ES)
                            for k in 0..(rng.below(6) as u16) {
                                items.push(Item::Ins(Ins::Mov { w: 8, dst: Opnd::Mem { seg: "es", base: "bp", index: "", disp: k as i32, has_disp: true }, src: Opnd::Imm(*rng.pick(&[b'H', b'i', b'!', b' ', 0xC3, b'x']) as i32) }));
                            }
                            items.push(mov16("cx", *rng.pick(&[0u16, 1, 5, 6, 20, 40])));
                            items.push(mov16("dx", ((rng.u8() as u16) << 8) | *rng.pick(&[0u16, 1, 3, 40])));
                            items.push(mov8("al", rng.u8()));
                            items.push(mov8("ah", 0x13));
                            items.push(Item::Ins(Ins::Int { n: 0x10 }));
                        }
                        2 => {
                            // INT 21h / 01h: first byte of the next line
                            items.push(mov16("ax", 0x0100 | rng.u8() as u16));
                            items.push(Item::Ins(Ins::Int { n: 0x21 }));
                            match if rng.chance(1, 8) { 9 } else { rng.below(4) } {
                                9 => stdin.push(ScriptLine::unreadable(rng)),
                                0 => {}
                                1 => stdin.push(line_of(rng, 0, true)),
                                2 => { let n = 1 + rng.below(5) as usize; stdin.push(line_of(rng, n, true)) }
                                _ => { let n = 1 + rng.below(5) as usize; stdin.push(line_of(rng, n, false)) }
                            }
                        }
                        3 => {
                            // INT 21h / 02h: DL
                            items.push(mov8("dl", *rng.pick(&[b'Q', b'\n', b' ', 0x80, 0xFF, 0, b'7'])));
                            items.push(mov16("ax", 0x0200 | rng.u8() as u16));
                            items.push(Item::Ins(Ins::Int { n: 0x21 }));
                        }
                        _ => {
                            // INT 21h / 0Ah: buffered line input at DS:DX
                            items.extend(setseg("ds", seg));
                            let dx = match rng.below(4) { 0 => 0xFFF0u16.wrapping_add(rng.below(16) as u16), 1 => rng.below(16) as u16, _ => 0x100 + rng.below(0x8000) as u16 };
                            let cap = *rng.pick(&[0u8, 1, 2, 5, 8, 255]);
                            items.push(mov16("dx", dx));
                            items.push(mov16("bx", dx));
                            items.push(Item::Ins(Ins::Mov { w: 8, dst: Opnd::Mem { seg: "", base: "bx", index: "", disp: 0, has_disp: false }, src: Opnd::Imm(cap as i32) }));
                            // the count byte and the first characters may hold something already (an earlier read, other data)
                            if rng.chance(1, 2) {
                                for (k, v) in [(1i32, 0x7Fi32), (2, 0x2E), (3, 0x2E)] {
                                    items.push(Item::Ins(Ins::Mov { w: 8, dst: Opnd::Mem { seg: "", base: "bx", index: "", disp: k, has_disp: true }, src: Opnd::Imm(v) }));
                                }
                            }
                            // one read, or two reads into the same buffer (the second sees what the first left)
                            let reads = if rng.chance(1, 3) { 2 } else { 1 };
                            for _ in 0..reads {
                                items.push(mov16("ax", 0x0A00 | rng.u8() as u16));
                                items.push(Item::Ins(Ins::Int { n: 0x21 }));
                                let c = cap as usize;
                                match if rng.chance(1, 8) { 9 } else { rng.below(9) } {
                                    9 => stdin.push(ScriptLine::unreadable(rng)),
                                    0 => {}
                                    1 => stdin.push(line_of(rng, 0, true)),
                                    2 => stdin.push(line_of(rng, c.saturating_sub(1), true)),
                                    3 => stdin.push(line_of(rng, c, true)),
                                    4 => stdin.push(line_of(rng, c + 1, true)),
                                    5 => { let n = c + 1 + rng.below(300) as usize; stdin.push(line_of(rng, n, true)) }
                                    // carriage returns: CR LF ends, several CRs before the end, a CR inside, a lone CR, CR at end of input
                                    6 | 7 => {
                                        let nl = rng.below(4) as usize;
                                        let mut l = line_of(rng, nl, true);
                                        l.raw.push_str(*rng.pick(&["\r", "\r\r", "\r\r\r", "x\ry", "\rz", " \r"]));
                                        if rng.chance(1, 4) { l.newline = false; }
                                        stdin.push(l);
                                    }
                                    _ => { let n = 1 + rng.below(10) as usize; stdin.push(line_of(rng, n, false)) }
                                }
                            }
                            // show what arrived (DS-relative print)
                            if rng.chance(1, 2) && seg < 0xF000 {
                                items.push(Item::Ins(Ins::Print { what: PrintWhat::Range(seg as u32 * 16 + dx as u32 % 0x8000, seg as u32 * 16 + dx as u32 % 0x8000 + 12) }));
                            }
                        }
                    }
                }
                items.push(Item::Ins(Ins::Print { what: PrintWhat::Reg }));
                let last = stdin.len().saturating_sub(1);
                for (k, s) in stdin.iter_mut().enumerate() {
                    if k != last {
                        s.newline = true;
                    }
                }
                // one program in four is single-stepped: the prompt and the services then read the same input, in turn.
                // The lines meant for the services are scattered among `n` lines; whoever's turn it is gets the next line
                // (a prompt reads a data line as a command, a service reads an `n` as data).
                if i % 4 == 3 {
                    let n_ins = items.iter().filter(|x| matches!(x, Item::Ins(_))).count();
                    let mut mixed: Vec<ScriptLine> = Vec::new();
                    let mut data_lines = stdin.into_iter().peekable();
                    for _ in 0..(n_ins + 4) {
                        while data_lines.peek().is_some() && rng.chance(1, 6) {
                            let mut l = data_lines.next().unwrap();
                            // what the line means when a prompt gets it
                            let t = l.raw.trim().to_ascii_lowercase();
                            l.cls = if l.cls == "unreadable" { "unreadable" } else if t == "n" || t == "next" { "next" } else if t == "q" || t == "quit" { "quit" } else { "garbage" };
                            l.newline = true;
                            mixed.push(l);
                        }
                        mixed.push(ScriptLine::next(rng));
                    }
                    progs.push((Program { data: Vec::new(), items, interp: true, stdin: mixed, note: "services-stepped".into() }, Layout::plain()));
                } else {
                    progs.push((Program { data: Vec::new(), items, interp: false, stdin, note: "services".into() }, Layout::plain()));
                }
            }
            // input lines around and beyond 64 KiB (a length that no longer fits 16 bits), into small and large buffers,
            // read by the character service first or by the line service at once
            for (k, len) in [65535usize, 65536, 65539, 65536 + 254, 131072 + 5].iter().enumerate() {
                let cap = [8i32, 255, 3, 254, 9][k];
                let mut items: Vec<Item> = vec![Item::Label("start".into())];
                items.push(mov16("dx", 0x0200));
                items.push(mov16("bx", 0x0200));
                items.push(Item::Ins(Ins::Mov { w: 8, dst: Opnd::Mem { seg: "", base: "bx", index: "", disp: 0, has_disp: false }, src: Opnd::Imm(cap) }));
                items.push(Item::Ins(Ins::Mov { w: 8, dst: Opnd::Mem { seg: "", base: "bx", index: "", disp: 1, has_disp: true }, src: Opnd::Imm(0x7F) }));
                let mut stdin: Vec<ScriptLine> = Vec::new();
                if k % 2 == 1 {
                    items.push(mov16("ax", 0x0100));
                    items.push(Item::Ins(Ins::Int { n: 0x21 }));
                    let raw: String = (0..*len).map(|i| (b'A' + (i % 23) as u8) as char).collect();
                    stdin.push(ScriptLine { raw, newline: true, cls: "data", what: None });
                }
                items.push(mov16("ax", 0x0A00));
                items.push(Item::Ins(Ins::Int { n: 0x21 }));
                let raw: String = (0..*len).map(|i| (b'a' + (i % 26) as u8) as char).collect();
                stdin.push(ScriptLine { raw, newline: k != 4, cls: "data", what: None });
                items.push(Item::Ins(Ins::Print { what: PrintWhat::Range(0x0200, 0x0200 + 12) }));
                items.push(Item::Ins(Ins::Print { what: PrintWhat::Reg }));
                progs.push((Program { data: Vec::new(), items, interp: false, stdin, note: format!("services-long-line-{}", len) }, Layout::plain()));
            }
            // the line-input buffer laid over the end of the 1 MB space: its capacity byte on FFFFDh .. 00002h (the count byte
            // and the characters then wrap one after the other), every small capacity, a line longer than the buffer
            for (bi, base) in (0xFFFFDu32..=0x100002).enumerate() {
                for cap in [0i32, 1, 4] {
                    let (seg, dx) = if (bi + cap as usize) % 2 == 0 { (0xFFFFu32, base - 0xFFFF0) } else { (0xF800u32, base - 0xF8000) };
                    let mut items: Vec<Item> = vec![Item::Label("start".into())];
                    items.extend(setseg("ds", seg as u16));
                    items.push(mov16("dx", dx as u16));
                    items.push(mov16("bx", dx as u16));
                    items.push(Item::Ins(Ins::Mov { w: 8, dst: Opnd::Mem { seg: "", base: "bx", index: "", disp: 0, has_disp: false }, src: Opnd::Imm(cap) }));
                    items.push(mov16("ax", 0x0A00));
                    items.push(Item::Ins(Ins::Int { n: 0x21 }));
                    items.push(Item::Ins(Ins::Print { what: PrintWhat::Range(0, 7) }));
                    items.push(Item::Ins(Ins::Print { what: PrintWhat::Range(0xFFFF8, 0xFFFFF) }));
                    let stdin = vec![ScriptLine { raw: "hello!".into(), newline: cap != 4, cls: "data", what: None }];
                    progs.push((Program { data: Vec::new(), items, interp: false, stdin, note: format!("services-buffer-at-{:x}", base) }, Layout::plain()));
                }
            }
            // the small corner of every console-output service: counts and columns 0, 1, 2 in every combination
            for cx in [0u16, 1, 2] {
                for dl in [0u16, 1, 2, 9] {
                    let mut items = vec![Item::Label("start".into())];
                    items.extend(setseg("es", 0x2000));
                    items.push(mov16("bp", 0x10));
                    for (k, ch) in [b'o', b'k'].iter().enumerate() {
                        items.push(Item::Ins(Ins::Mov { w: 8, dst: Opnd::Mem { seg: "es", base: "bp", index: "", disp: k as i32, has_disp: true }, src: Opnd::Imm(*ch as i32) }));
                    }
                    items.push(mov8("dl", b'['));
                    items.push(mov16("ax", 0x0200));
                    items.push(Item::Ins(Ins::Int { n: 0x21 }));
                    items.push(mov16("cx", cx));
                    items.push(mov16("dx", 0x7700 | dl));
                    items.push(mov16("ax", 0x1300 | b'#' as u16));
                    items.push(Item::Ins(Ins::Int { n: 0x10 }));
                    items.push(mov16("cx", cx));
                    items.push(mov16("ax", 0x0A00 | b'*' as u16));
                    items.push(Item::Ins(Ins::Int { n: 0x10 }));
                    items.push(mov8("dl", b']'));
                    items.push(mov16("ax", 0x0200));
                    items.push(Item::Ins(Ins::Int { n: 0x21 }));
                    progs.push((Program { data: Vec::new(), items, interp: false, stdin: Vec::new(), note: format!("out-corner-{}-{}", cx, dl) }, Layout::plain()));
                }
            }
            // long output: strings of more than 1024 / 4096 bytes with bytes >= 80h (two bytes each on stdout) at the start,
            // throughout, and only at the end; a character >= 80h repeated thousands of times.  The string is built in
            // memory by the program itself (two REP STOS and a few stores)
            for (k, (head, headn, midn, tail)) in [(0xE9u16, 1u16, 1023u16, [0x58u8, 0x59, 0x5A, 0x21]), (0xE9, 1500, 0, [0x45, 0x4E, 0x44, 0x2E]), (0x61, 1100, 0, [0xE9, 0xE9, 0x21, 0x21]), (0xFF, 5, 4200, [0x74, 0x61, 0x69, 0x6C])].iter().enumerate() {
                let mut items: Vec<Item> = vec![Item::Label("start".into())];
                items.push(mov16("di", 0x0300));
                items.push(mov16("cx", *headn));
                items.push(mov16("ax", *head));
                items.push(Item::Ins(Ins::Str { op: "stos", w: 8, rep: "rep", repmn: "rep" }));
                items.push(mov16("cx", *midn));
                items.push(mov16("ax", 0x61 + k as u16));
                items.push(Item::Ins(Ins::Str { op: "stos", w: 8, rep: "rep", repmn: "rep" }));
                for (j, t) in tail.iter().enumerate() {
                    items.push(Item::Ins(Ins::Mov { w: 8, dst: Opnd::Mem { seg: "", base: "", index: "di", disp: j as i32, has_disp: true }, src: Opnd::Imm(*t as i32) }));
                }
                items.push(mov16("bp", 0x0300));
                items.push(mov16("cx", *headn + *midn + 4));
                items.push(mov16("dx", 0x0003));
                items.push(mov16("ax", 0x1300));
                items.push(Item::Ins(Ins::Int { n: 0x10 }));
                items.push(mov16("cx", 2000 + k as u16 * 700));
                items.push(mov16("ax", 0x0A00 | [0xE9u16, 0x80, 0x7F, 0xFF][k]));
                items.push(Item::Ins(Ins::Int { n: 0x10 }));
                items.push(Item::Ins(Ins::Print { what: PrintWhat::Reg }));
                progs.push((Program { data: Vec::new(), items, interp: false, stdin: Vec::new(), note: format!("out-long-{}", k) }, Layout::plain()));
            }
            // every AH value for both interrupts (unsupported ones must be reported and stop the program)
            for n in [0x10u32, 0x21] {
                for ah in 0..256u32 {
                    if !thorough && ah % 4 != 0 && ![1u32, 2, 10, 0x13, 9, 11, 0x12, 0x14].contains(&ah) {
                        continue;
                    }
                    let items = vec![
                        Item::Label("start".into()),
                        mov16("cx", 2),
                        mov16("dx", 0x0041),
                        mov16("ax", ((ah as u16) << 8) | 0x42),
                        Item::Ins(Ins::Int { n }),
                        Item::Ins(Ins::Print { what: PrintWhat::Reg }),
                    ];
                    let stdin = vec![ScriptLine { raw: "xyz".into(), newline: true, cls: "data", what: None }];
                    progs.push((Program { data: Vec::new(), items, interp: false, stdin, note: format!("ah-{}-{}", n, ah) }, Layout::plain()));
                }
            }
        }
        "C12" => {
            for i in 0..(220 * scale) {
                let mut data: Vec<DataItem> = Vec::new();
                let mut items: Vec<Item> = vec![Item::Label("start".into())];
                let mut lab = 0usize;
                let ngroups = 1 + rng.below(3) as usize;
                let over = i % 11 == 10; // one program in eleven exceeds 64 KiB in a segment
                let mut segs_used: Vec<u16> = Vec::new();
                for gi in 0..ngroups {
                    let seg: u16 = if gi == 0 && rng.chance(1, 2) { 0 } else {
                        let s = *rng.pick(&[0u16, 1, 0x10, 0x0FFF, 0x1000, 0x8000, 0xF000, 0xFFF0, 0xFFFF, 0xFFFE]);
                        data.push(DataItem::Set(s as u32));
                        s
                    };
                    segs_used.push(seg);
                    let mut group: Vec<(String, u8)> = Vec::new();
                    let ndefs = 1 + rng.below(6) as usize;
                    let mut big_done = false;
                    for di in 0..ndefs {
                        let dir: &'static str = if rng.chance(1, 2) { "db" } else { "dw" };
                        let w: u8 = if dir == "db" { 8 } else { 16 };
                        let imm = |rng: &mut Rng| -> i32 { if w == 8 { *rng.pick(&[0i32, 1, 127, 128, 255, -1, -128, 65]) } else { *rng.pick(&[0i32, 1, 255, 256, 32767, 32768, 65535, -1, -32768, 0x1234]) } };
                        let form = match rng.below(8) {
                            0 | 1 => DataForm::Num(imm(rng)),
                            2 => DataForm::Zero(*rng.pick(&[0u32, 1, 2, 15, 16, 255, 256])),
                            3 => DataForm::Fill(imm(rng), *rng.pick(&[0u32, 1, 2, 3, 17, 100])),
                            4 | 5 => DataForm::Str(rng.pick(&["", "a", "hello world", "0123456789ABCDEF", "x  y", "~!@#$%^&*()_+{}|<>?", "\"hi\"", "\"", "a\"b", "\"\"", "it's no comment"]).to_string()),
                            6 if !big_done && (over || rng.chance(1, 3)) => {
                                big_done = true;
                                // large zero arrays: up to (and, for `over`, beyond) the 64 KiB of a segment
                                let n = if over && gi == ngroups - 1 { if w == 8 { 65535 } else { 32767 + rng.below(3) as u32 } } else if w == 8 { *rng.pick(&[4096u32, 32768, 60000, 65000]) } else { *rng.pick(&[2048u32, 16384, 30000]) };
                                DataForm::Zero(n)
                            }
                            _ => DataForm::Num(imm(rng)),
                        };
                        let label = if rng.chance(4, 5) || di == ndefs - 1 {
                            lab += 1;
                            let n = format!("dat{}_{}", if lab % 2 == 0 { "A" } else { "q" }, lab);
                            group.push((n.clone(), w));
                            Some(n)
                        } else {
                            None
                        };
                        data.push(DataItem::Def { label, dir, form });
                    }
                    if over && gi == ngroups - 1 {
                        // push the running offset past 64 KiB and define a labelled item there
                        data.push(DataItem::Def { label: None, dir: "db", form: DataForm::Zero(200) });
                        lab += 1;
                        let n = format!("datZ_{}", lab);
                        group.push((n.clone(), 8));
                        data.push(DataItem::Def { label: Some(n), dir: "db", form: DataForm::Num(90) });
                    }
                    // read every label of the group through DS = its segment, as operand and through OFFSET
                    items.push(Item::Ins(Ins::Mov { w: 16, dst: Opnd::Reg16("ax"), src: Opnd::Imm(seg as i32) }));
                    items.push(Item::Ins(Ins::Mov { w: 16, dst: Opnd::Sreg("ds"), src: Opnd::Reg16("ax") }));
                    for (n, w) in &group {
                        let r = if *w == 8 { Opnd::Reg8(*rng.pick(&["bl", "bh", "dl", "dh"])) } else { Opnd::Reg16(*rng.pick(&["bx", "dx", "si", "di"])) };
                        items.push(Item::Ins(Ins::Mov { w: *w, dst: r, src: Opnd::Label { name: n.clone(), off: 0 } }));
                        items.push(Item::Ins(Ins::Mov { w: 16, dst: Opnd::Reg16("cx"), src: Opnd::Offset { name: n.clone(), off: 0 } }));
                        if rng.chance(1, 3) {
                            items.push(Item::Ins(Ins::Lea { dst: Opnd::Reg16("bp"), src: Opnd::Label { name: n.clone(), off: 0 } }));
                        }
                        if rng.chance(1, 3) {
                            items.push(Item::Ins(Ins::BinArith { op: "add", w: *w, dst: Opnd::Label { name: n.clone(), off: 0 }, src: Opnd::Imm(1) }));
                        }
                    }
                    items.push(Item::Ins(Ins::Print { what: PrintWhat::DsSpan(rng.below(48) as u32) }));
                }
                let p = Program { data, items, interp: false, stdin: Vec::new(), note: if over { "over-64k".into() } else { "data".into() } };
                let mut lay = Layout::random(rng);
                lay.label_same_line = false;
                progs.push((p, lay));
            }
            // every kind of item laid out across the end of the 1 MB space (physical FFFFFh -> 00000h) and across the
            // end of a segment's 64 KiB, at every alignment: a pad brings the location counter to 1..3 bytes before the
            // boundary, the item straddles it, a labelled item follows and everything is read back
            let kinds: Vec<(&'static str, DataForm)> = vec![
                ("dw", DataForm::Num(0x1234)), ("dw", DataForm::Num(-2)), ("db", DataForm::Num(0x5A)),
                ("dw", DataForm::Fill(0x4321, 2)), ("db", DataForm::Fill(0x77, 4)), ("dw", DataForm::Zero(2)), ("db", DataForm::Zero(4)),
                // (fills with the value 0 must clear what an earlier definition put there, like any other value)
                ("dw", DataForm::Fill(0, 2)), ("db", DataForm::Fill(0, 4)), ("dw", DataForm::Num(0)), ("db", DataForm::Num(0)),
                ("dw", DataForm::Str("ab".into())), ("db", DataForm::Str("wxyz".into())),
            ];
            // a segment filled to exactly 64 KiB (the largest amount that is not refused), over earlier non-zero data
            let full: Vec<Vec<(&'static str, DataForm)>> = vec![
                vec![("dw", DataForm::Zero(32768))],
                vec![("db", DataForm::Zero(65535)), ("db", DataForm::Num(7))],
                vec![("dw", DataForm::Zero(32767)), ("dw", DataForm::Num(0x1234))],
                vec![("db", DataForm::Zero(65534)), ("dw", DataForm::Num(-2))],
                vec![("db", DataForm::Num(9)), ("dw", DataForm::Zero(32767)), ("db", DataForm::Num(8))],
            ];
            for seg in [0u32, 0x1000, 0xF800] {
                for defs in &full {
                    let mut data: Vec<DataItem> = vec![DataItem::Set(seg), DataItem::Def { label: None, dir: "db", form: DataForm::Fill(0x55, 9) }, DataItem::Set(seg)];
                    let mut items: Vec<Item> = vec![Item::Label("start".into())];
                    items.push(Item::Ins(Ins::Mov { w: 16, dst: Opnd::Reg16("ax"), src: Opnd::Imm(seg as i32) }));
                    items.push(Item::Ins(Ins::Mov { w: 16, dst: Opnd::Sreg("ds"), src: Opnd::Reg16("ax") }));
                    for (k, (dir, form)) in defs.iter().enumerate() {
                        let name = format!("full_{}", k);
                        data.push(DataItem::Def { label: Some(name.clone()), dir, form: form.clone() });
                        let w: u8 = if *dir == "db" { 8 } else { 16 };
                        let r = if w == 8 { Opnd::Reg8("bl") } else { Opnd::Reg16("dx") };
                        items.push(Item::Ins(Ins::Mov { w, dst: r, src: Opnd::Label { name: name.clone(), off: 0 } }));
                        items.push(Item::Ins(Ins::Mov { w: 16, dst: Opnd::Reg16("cx"), src: Opnd::Offset { name, off: 0 } }));
                    }
                    items.push(Item::Ins(Ins::Print { what: PrintWhat::DsSpan(12) }));
                    let p = Program { data, items, interp: false, stdin: Vec::new(), note: "data-full-segment".into() };
                    let mut lay = Layout::random(rng);
                    lay.label_same_line = false;
                    progs.push((p, lay));
                }
            }
            // a segment filled to 64 KiB - 2 .. 64 KiB, then every kind of item: the one that crosses the 64 KiB must be
            // diagnosed whatever its kind (each kind of definition advances the location counter in a rule of its own)
            for (fi, fill) in [65534u32, 65535, 65536].iter().enumerate() {
                for (ki, (dir, form)) in kinds.iter().enumerate() {
                    let seg = [0u32, 0x2000, 0xFFFF][(fi + ki) % 3];
                    let mut data: Vec<DataItem> = vec![DataItem::Set(seg)];
                    if (fi + ki) % 2 == 0 || fill % 2 == 1 {
                        data.push(DataItem::Def { label: Some("fill_b".into()), dir: "db", form: DataForm::Zero(*fill) });
                    } else {
                        data.push(DataItem::Def { label: Some("fill_w".into()), dir: "dw", form: DataForm::Zero(*fill / 2) });
                    }
                    data.push(DataItem::Def { label: Some("edge_A".into()), dir, form: form.clone() });
                    if ki % 2 == 0 {
                        data.push(DataItem::Def { label: Some("past_w".into()), dir: "dw", form: DataForm::Num(0x1234) });
                    }
                    let w: u8 = if *dir == "db" { 8 } else { 16 };
                    let mut items: Vec<Item> = vec![Item::Label("start".into())];
                    items.push(Item::Ins(Ins::Mov { w: 16, dst: Opnd::Reg16("ax"), src: Opnd::Imm(seg as i32) }));
                    items.push(Item::Ins(Ins::Mov { w: 16, dst: Opnd::Sreg("ds"), src: Opnd::Reg16("ax") }));
                    let r = if w == 8 { Opnd::Reg8("bl") } else { Opnd::Reg16("bx") };
                    items.push(Item::Ins(Ins::Mov { w, dst: r, src: Opnd::Label { name: "edge_A".into(), off: 0 } }));
                    items.push(Item::Ins(Ins::Mov { w: 16, dst: Opnd::Reg16("cx"), src: Opnd::Offset { name: "edge_A".into(), off: 0 } }));
                    items.push(Item::Ins(Ins::Print { what: PrintWhat::Reg }));
                    let p = Program { data, items, interp: false, stdin: Vec::new(), note: "data-edge-of-segment".into() };
                    let mut lay = Layout::random(rng);
                    lay.label_same_line = false;
                    progs.push((p, lay));
                }
            }
            for (seg, room) in [(0xFFFFu32, 16u32), (0xFFFE, 32), (0xFFF0, 256), (0xF001, 0xFFF0)] {
                for (dir, form) in &kinds {
                    for before in 0..4u32 {
                        let mut data: Vec<DataItem> = vec![DataItem::Set(seg)];
                        // non-zero bytes where the wrapped part must land
                        let mut pre: Vec<DataItem> = vec![DataItem::Set(0), DataItem::Def { label: None, dir: "db", form: DataForm::Fill(0xEE, 6) }];
                        pre.append(&mut data);
                        let mut data = pre;
                        data.push(DataItem::Def { label: Some("pad_q".into()), dir: "db", form: if room > 300 { DataForm::Zero(room - before) } else { DataForm::Fill(0x11, room - before) } });
                        data.push(DataItem::Def { label: Some("item_A".into()), dir, form: form.clone() });
                        data.push(DataItem::Def { label: Some("after_w".into()), dir: "dw", form: DataForm::Num(0x5678) });
                        let w: u8 = if *dir == "db" { 8 } else { 16 };
                        let mut items: Vec<Item> = vec![Item::Label("start".into())];
                        items.push(Item::Ins(Ins::Mov { w: 16, dst: Opnd::Reg16("ax"), src: Opnd::Imm(seg as i32) }));
                        items.push(Item::Ins(Ins::Mov { w: 16, dst: Opnd::Sreg("ds"), src: Opnd::Reg16("ax") }));
                        let r = if w == 8 { Opnd::Reg8("bl") } else { Opnd::Reg16("bx") };
                        items.push(Item::Ins(Ins::Mov { w, dst: r, src: Opnd::Label { name: "item_A".into(), off: 0 } }));
                        items.push(Item::Ins(Ins::Mov { w: 16, dst: Opnd::Reg16("cx"), src: Opnd::Offset { name: "item_A".into(), off: 0 } }));
                        items.push(Item::Ins(Ins::Mov { w: 16, dst: Opnd::Reg16("dx"), src: Opnd::Label { name: "after_w".into(), off: 0 } }));
                        items.push(Item::Ins(Ins::Mov { w: 16, dst: Opnd::Reg16("si"), src: Opnd::Offset { name: "after_w".into(), off: 0 } }));
                        items.push(Item::Ins(Ins::Print { what: PrintWhat::Range(0, 7) }));
                        items.push(Item::Ins(Ins::Print { what: PrintWhat::Range(0xFFFF8, 0xFFFFF) }));
                        let p = Program { data, items, interp: false, stdin: Vec::new(), note: "data-wrap".into() };
                        let mut lay = Layout::random(rng);
                        lay.label_same_line = false;
                        progs.push((p, lay));
                    }
                }
            }
        }
        "C14" => {
            progs.extend(c14_programs(rng, scale));
        }
        _ => panic!("harness: no driver workload for {}", prop),
    }
    // degenerate shapes: nothing after `start:`, only a halt, a label as the very last thing,
    // a procedure as the only code before start
    if prop == "C08" || prop == "C20" || prop == "C16" {
        let shapes: Vec<Vec<Item>> = vec![
            vec![Item::Label("start".into())],
            vec![Item::Label("start".into()), Item::Ins(Ins::Ctl { op: "hlt" })],
            vec![Item::Label("start".into()), Item::Ins(Ins::Ctl { op: "nop" })],
            vec![Item::Label("start".into()), Item::Ins(Ins::Jcc { mn: "jmp", label: "fin".into(), target: 0 }), Item::Ins(Ins::Ctl { op: "stc" }), Item::Label("fin".into())],
            vec![Item::Proc { name: "pq".into(), body: vec![Item::Ins(Ins::Ctl { op: "stc" })] }, Item::Label("start".into())],
            vec![Item::Proc { name: "pq".into(), body: vec![Item::Ins(Ins::Ctl { op: "stc" })] }, Item::Label("start".into()), Item::Ins(Ins::Call { name: "pq".into(), target: 0 })],
            vec![Item::Ins(Ins::Ctl { op: "cmc" }), Item::Label("start".into()), Item::Ins(Ins::Int { n: 3 })],
            vec![Item::Label("start".into()), Item::Ins(Ins::Print { what: PrintWhat::Flags })],
            // a taken jump to a label that is followed by a print statement / a macro use / is the last thing
            vec![Item::Label("start".into()), Item::Ins(Ins::Jcc { mn: "jmp", label: "before_print".into(), target: 0 }), Item::Ins(Ins::Ctl { op: "stc" }), Item::Label("before_print".into()), Item::Ins(Ins::Print { what: PrintWhat::Reg }), Item::Ins(Ins::Ctl { op: "cmc" })],
            vec![Item::Raw("macro Mtwice(r) -> inc r inc r <-".into()), Item::Label("start".into()), Item::Ins(Ins::Jcc { mn: "jnc", label: "before_use".into(), target: 0 }), Item::Ins(Ins::Ctl { op: "stc" }), Item::Label("before_use".into()),
                 Item::Use { text: "Mtwice(bx)".into(), expands: vec![Ins::UnArith { op: "inc", w: 16, dst: Opnd::Reg16("bx") }, Ins::UnArith { op: "inc", w: 16, dst: Opnd::Reg16("bx") }] }, Item::Ins(Ins::Print { what: PrintWhat::Reg })],
            // a label directly before a procedure: jumping there continues with the procedure's first instruction
            vec![Item::Label("start".into()), Item::Ins(Ins::Jcc { mn: "jmp", label: "before_proc".into(), target: 0 }), Item::Ins(Ins::Ctl { op: "stc" }), Item::Label("before_proc".into()),
                 Item::Proc { name: "pz".into(), body: vec![Item::Ins(Ins::UnArith { op: "inc", w: 16, dst: Opnd::Reg16("dx") }), Item::Ins(Ins::Ctl { op: "hlt" })] }, Item::Ins(Ins::Ctl { op: "cmc" })],
            // procedures calling procedures to depth 4, twice
            vec![Item::Proc { name: "q1".into(), body: vec![Item::Ins(Ins::UnArith { op: "inc", w: 16, dst: Opnd::Reg16("ax") })] },
                 Item::Proc { name: "q2".into(), body: vec![Item::Ins(Ins::Call { name: "q1".into(), target: 0 }), Item::Ins(Ins::Call { name: "q1".into(), target: 0 })] },
                 Item::Proc { name: "q3".into(), body: vec![Item::Ins(Ins::Call { name: "q2".into(), target: 0 }), Item::Ins(Ins::UnArith { op: "inc", w: 16, dst: Opnd::Reg16("bx") }), Item::Ins(Ins::Call { name: "q1".into(), target: 0 })] },
                 Item::Proc { name: "q4".into(), body: vec![Item::Ins(Ins::Call { name: "q3".into(), target: 0 }), Item::Ins(Ins::Call { name: "q2".into(), target: 0 })] },
                 Item::Label("start".into()), Item::Ins(Ins::Call { name: "q4".into(), target: 0 }), Item::Ins(Ins::Call { name: "q4".into(), target: 0 }), Item::Ins(Ins::Print { what: PrintWhat::Reg })],
        ];
        // every repeat prefix with its string instruction on the next line (and a comment after the prefix), stepped
        // and not: prompts and messages cite the line the instruction starts on
        for (op, rep, repmn) in crate::checks2::STR_COMBOS.iter().filter(|c| !c.1.is_empty()) {
            for (interp, comment) in [(true, 0u64), (true, 8), (false, 8)] {
                let items = vec![
                    Item::Label("start".into()),
                    Item::Ins(Ins::Mov { w: 16, dst: Opnd::Reg16("cx"), src: Opnd::Imm(2) }),
                    Item::Ins(Ins::Mov { w: 16, dst: Opnd::Reg16("si"), src: Opnd::Imm(0x4000) }),
                    Item::Ins(Ins::Mov { w: 16, dst: Opnd::Reg16("di"), src: Opnd::Imm(0x4010) }),
                    Item::Ins(Ins::Str { op, w: 8, rep, repmn }),
                    Item::Ins(Ins::Print { what: PrintWhat::Reg }),
                ];
                let mut lay = Layout::plain();
                lay.split_every = true;
                lay.comment = comment;
                progs.push((Program { data: Vec::new(), items, interp, stdin: nexts(rng, 12), note: format!("split-{}-{}", repmn, op) }, lay));
            }
        }
        for (i, s) in shapes.iter().enumerate() {
            for interp in [false, true] {
                for nl in [true, false] {
                    let mut lay = Layout::plain();
                    lay.trailing_newline = nl;
                    let stdin = if i % 2 == 0 { nexts(rng, 6) } else { Vec::new() };
                    progs.push((Program { data: Vec::new(), items: s.clone(), interp, stdin, note: format!("degenerate-{}", i) }, lay));
                }
            }
        }
    }
    // programs of more than 65536 instructions: labels and procedures whose index does not fit 16 bits
    if prop == "C08" {
        let big: Vec<Vec<Item>> = vec![
            // forward over the filler
            vec![Item::Label("start".into()), Item::Ins(Ins::Jcc { mn: "jmp", label: "far_A".into(), target: 0 }), Item::Ins(Ins::Mov { w: 16, dst: Opnd::Reg16("bx"), src: Opnd::Imm(0x0BAD) }),
                 Item::Fill(65535), Item::Label("far_A".into()), Item::Ins(Ins::Mov { w: 16, dst: Opnd::Reg16("ax"), src: Opnd::Imm(1) }), Item::Ins(Ins::Print { what: PrintWhat::Reg })],
            // start itself beyond index 65536, a call back to a procedure before the filler and a backward loop
            vec![Item::Proc { name: "near_p".into(), body: vec![Item::Ins(Ins::UnArith { op: "inc", w: 16, dst: Opnd::Reg16("dx") })] }, Item::Fill(65600),
                 Item::Label("start".into()), Item::Ins(Ins::Mov { w: 16, dst: Opnd::Reg16("cx"), src: Opnd::Imm(3) }), Item::Label("again_Q".into()), Item::Ins(Ins::Call { name: "near_p".into(), target: 0 }),
                 Item::Ins(Ins::Jcc { mn: "loop", label: "again_Q".into(), target: 0 }), Item::Ins(Ins::Print { what: PrintWhat::Reg })],
            // a procedure beyond index 65536 called from the beginning
            vec![Item::Label("start".into()), Item::Ins(Ins::Call { name: "far_p".into(), target: 0 }), Item::Ins(Ins::Print { what: PrintWhat::Reg }), Item::Ins(Ins::Ctl { op: "hlt" }),
                 Item::Fill(65540), Item::Proc { name: "far_p".into(), body: vec![Item::Ins(Ins::UnArith { op: "inc", w: 16, dst: Opnd::Reg16("si") })] }],
        ];
        for (i, s) in big.iter().enumerate() {
            progs.push((Program { data: Vec::new(), items: s.clone(), interp: false, stdin: Vec::new(), note: format!("large-{}", i) }, Layout::plain()));
        }
        // procedures have a name space of their own: a procedure may share its name with a data label or with a code
        // label; CALL goes to the procedure, a jump to the code label, a data operand to the data
        let inc = |r: &'static str| Item::Ins(Ins::UnArith { op: "inc", w: 16, dst: Opnd::Reg16(r) });
        for variant in 0..4 {
            let mut data: Vec<DataItem> = vec![DataItem::Def { label: Some("pad_k".into()), dir: "db", form: DataForm::Fill(3, 5) }];
            data.push(DataItem::Def { label: Some("shared_N".into()), dir: "dw", form: DataForm::Num(0x0102) });
            let mut items: Vec<Item> = Vec::new();
            let body_shared = vec![Item::Ins(Ins::UnArith { op: "inc", w: 16, dst: Opnd::Label { name: "shared_N".into(), off: 0 } }), inc("si")];
            let body_both = vec![inc("di"), Item::Ins(Ins::Mov { w: 16, dst: Opnd::Reg16("bx"), src: Opnd::Label { name: "shared_N".into(), off: 0 } })];
            if variant % 2 == 0 {
                items.push(Item::Proc { name: "shared_N".into(), body: body_shared.clone() });
                items.push(Item::Proc { name: "both_Q".into(), body: body_both.clone() });
            }
            items.push(Item::Label("start".into()));
            if variant % 2 == 1 {
                items.push(Item::Ins(Ins::Jcc { mn: "jmp", label: "over_p".into(), target: 0 }));
                items.push(Item::Proc { name: "both_Q".into(), body: body_both });
                items.push(Item::Proc { name: "shared_N".into(), body: body_shared });
                items.push(Item::Label("over_p".into()));
            }
            items.push(Item::Ins(Ins::Call { name: "shared_N".into(), target: 0 }));
            items.push(Item::Ins(Ins::Call { name: "both_Q".into(), target: 0 }));
            items.push(Item::Ins(Ins::Call { name: "shared_N".into(), target: 0 }));
            if variant >= 2 {
                items.push(Item::Ins(Ins::Jcc { mn: "jmp", label: "both_Q".into(), target: 0 }));
                items.push(Item::Ins(Ins::Mov { w: 16, dst: Opnd::Reg16("dx"), src: Opnd::Imm(0x0BAD) }));
            }
            items.push(Item::Label("both_Q".into()));
            items.push(Item::Ins(Ins::Mov { w: 16, dst: Opnd::Reg16("ax"), src: Opnd::Offset { name: "shared_N".into(), off: 0 } }));
            items.push(Item::Ins(Ins::Mov { w: 16, dst: Opnd::Reg16("cx"), src: Opnd::Label { name: "shared_N".into(), off: 0 } }));
            items.push(Item::Ins(Ins::Print { what: PrintWhat::Reg }));
            let mut lay = Layout::random(rng);
            lay.label_same_line = false;
            progs.push((Program { data, items, interp: variant == 3, stdin: if variant == 3 { nexts(rng, 40) } else { Vec::new() }, note: format!("shared-names-{}", variant) }, lay));
        }
    }
    run_batch(&bin, &dir, &progs, rng, sh, &format!("{}-runs", prop), 16);
    // the repository's own example programs, byte for byte as their author wrote them (every driver-level check sees them;
    // each owns its own tags of the verdicts)
    if matches!(prop, "C08" | "C12" | "C16" | "C17" | "C18" | "C20") {
        run_examples(&bin, &dir, sh, prop, rng);
    }
    if std::env::var("VERIF_KEEP_SRC").is_err() {
        let _ = std::fs::remove_dir_all(&dir);
    }
}

pub const MUTATIONS: usize = 23;

fn all_ins_mut<'a>(items: &'a mut Vec<Item>, out: &mut Vec<&'a mut Ins>) {
    for it in items.iter_mut() {
        match it {
            Item::Ins(i) => out.push(i),
            Item::Proc { body, .. } => all_ins_mut(body, out),
            _ => {}
        }
    }
}

/// one single semantic mutation of a valid program; None when the mutation does not apply
pub fn mutate(base: &Program, m: usize, rng: &mut Rng) -> Option<Program> {
    let mut p = base.clone();
    let data_label: Option<String> = p.data.iter().find_map(|d| match d { DataItem::Def { label: Some(l), .. } => Some(l.clone()), _ => None });
    let unsupported = ["in al, 5", "out 5, al", "lds ax, [bx]", "les bx, [si]", "into", "iret", "wait", "lock", "esc",
        "IN AL, 5", "in al, dl", "OUT 5, AL", "out dl, al", "LDS AX, [BX]", "LES BX, ES[SI, 2]", "INTO", "IRET", "WAIT", "LOCK", "ESC", "int 5", "int 0", "movsb", "dd 5", "pop cs", "mov ax, byte [bx]", "mov al, word [0]", "xchg ax, 5", "lea ax, bx", "push al", "push 5", "mov ds, 5", "inc 5", "mov 5, ax", "add word [bx], word [si]"];
    match m {
        0 => {
            // drop the definition of a code label that is used
            let pos = p.items.iter().position(|x| matches!(x, Item::Label(n) if n == "tail_Z"))?;
            p.items.remove(pos);
        }
        1 => {
            // define a code label twice
            p.items.push(Item::Label("tail_Z".into()));
            p.items.push(Item::Ins(Ins::Ctl { op: "nop" }));
        }
        2 => {
            // jump to a data label
            let l = data_label?;
            p.items.push(Item::Bad(Ins::Jcc { mn: *rng.pick(&["jmp", "jz", "loop", "jcxz"]), label: l, target: 0 }, String::new()));
        }
        3 => {
            // mixed operand sizes
            let ins = match rng.below(4) {
                0 => Ins::Mov { w: 8, dst: Opnd::Reg8("al"), src: Opnd::Reg16("bx") },
                1 => Ins::BinArith { op: "add", w: 16, dst: Opnd::Reg16("ax"), src: Opnd::Reg8("bl") },
                2 => Ins::Xchg { w: 16, a: Opnd::Reg16("cx"), b: Opnd::Reg8("dl") },
                _ => Ins::Logic { op: "and", w: 8, dst: Opnd::Reg8("dh"), src: Opnd::Reg16("si") },
            };
            p.items.push(Item::Bad(ins, String::new()));
        }
        4 => {
            // a constant one step outside its range
            let ins = match rng.below(8) {
                0 => Ins::Mov { w: 8, dst: Opnd::Reg8("al"), src: Opnd::Imm(256) },
                1 => Ins::Mov { w: 8, dst: Opnd::Reg8("al"), src: Opnd::Imm(-129) },
                2 => Ins::BinArith { op: "add", w: 16, dst: Opnd::Reg16("bx"), src: Opnd::Imm(65536) },
                3 => Ins::BinArith { op: "sbb", w: 16, dst: Opnd::Reg16("bx"), src: Opnd::Imm(-32769) },
                4 => Ins::Logic { op: "or", w: 8, dst: Opnd::Reg8("bl"), src: Opnd::Imm(-1) },
                5 => Ins::Shift { op: "sal", mn: "shl", w: 8, dst: Opnd::Reg8("bl"), cnt: Cnt::Imm(256) },
                6 => Ins::Logic { op: "and", w: 16, dst: Opnd::Reg16("dx"), src: Opnd::Imm(65536) },
                _ => Ins::Mov { w: 16, dst: Opnd::Mem { seg: "", base: "", index: "", disp: 70000, has_disp: true }, src: Opnd::Reg16("ax") },
            };
            p.items.push(Item::Bad(ins, String::new()));
        }
        5 => {
            let t = *rng.pick(&unsupported);
            p.items.push(Item::Bad(Ins::Unsupported { text: t.to_string() }, String::new()));
        }
        6 => {
            // no code label `start`
            let pos = p.items.iter().position(|x| matches!(x, Item::Label(n) if n == "start"))?;
            if rng.chance(1, 2) { p.items.remove(pos); } else { p.items[pos] = Item::Label(rng.pick(&["Start", "START", "start_", "_start"]).to_string()); }
        }
        7 => {
            // two memory operands
            let a = Opnd::Mem { seg: "", base: "bx", index: "", disp: 0, has_disp: false };
            let b = Opnd::Mem { seg: "", base: "", index: "si", disp: 2, has_disp: true };
            let w = if rng.chance(1, 2) { 8 } else { 16 };
            let ins = match rng.below(3) { 0 => Ins::Mov { w, dst: a, src: b }, 1 => Ins::BinArith { op: "cmp", w, dst: a, src: b }, _ => Ins::Xchg { w, a, b } };
            p.items.push(Item::Ins(ins));
        }
        8 => {
            // a data operand naming a code label
            p.items.push(Item::Bad(Ins::Mov { w: 16, dst: Opnd::Reg16("ax"), src: Opnd::Label { name: "tail_Z".into(), off: 0 } }, String::new()));
        }
        9 => {
            // a data operand / OFFSET naming nothing
            let ins = if rng.chance(1, 2) { Ins::UnArith { op: "inc", w: 8, dst: Opnd::Label { name: "nosuch_V".into(), off: 0 } } } else { Ins::Mov { w: 16, dst: Opnd::Reg16("ax"), src: Opnd::Offset { name: "nosuch_V".into(), off: 0 } } };
            p.items.push(Item::Ins(ins));
        }
        10 => {
            // OFFSET of a code label
            p.items.push(Item::Bad(Ins::Mov { w: 16, dst: Opnd::Reg16("si"), src: Opnd::Offset { name: "start".into(), off: 0 } }, String::new()));
        }
        11 => {
            // call of something that is not a procedure
            let n = *rng.pick(&["tail_Z", "start", "nosuch_P", "calldata_V", "calldata_V"]);
            if n == "calldata_V" {
                // (a data label is not a procedure either)
                p.data.push(DataItem::Def { label: Some(n.to_string()), dir: if rng.chance(1, 2) { "db" } else { "dw" }, form: DataForm::Num(1) });
            }
            p.items.push(Item::Bad(Ins::Call { name: n.to_string(), target: 0 }, "call".to_string()));
        }
        12 => {
            // call of a procedure that is only defined later
            p.items.push(Item::Ins(Ins::Call { name: "late_P".into(), target: 0 }));
            p.items.push(Item::Ins(Ins::Ctl { op: "hlt" }));
            p.items.push(Item::Proc { name: "late_P".into(), body: vec![Item::Ins(Ins::Ctl { op: "nop" })] });
        }
        13 => {
            // a procedure defined twice
            let body = vec![Item::Ins(Ins::Ctl { op: "nop" })];
            p.items.insert(0, Item::Proc { name: "dup_P".into(), body: body.clone() });
            p.items.insert(1, Item::Proc { name: "dup_P".into(), body });
        }
        14 => {
            // a data definition out of range
            let d = match rng.below(5) {
                0 => DataItem::Def { label: None, dir: "db", form: DataForm::Num(256) },
                1 => DataItem::Def { label: None, dir: "dw", form: DataForm::Num(65536) },
                2 => DataItem::Set(65536),
                3 => DataItem::Def { label: None, dir: "db", form: DataForm::Zero(65536) },
                _ => DataItem::Def { label: None, dir: "dw", form: DataForm::Fill(-32769, 2) },
            };
            p.data.push(d);
        }
        15 => {
            // a data label defined twice / a data label and a code label with one name
            let l = data_label?;
            if rng.chance(1, 2) { p.data.push(DataItem::Def { label: Some(l), dir: "db", form: DataForm::Num(1) }); } else { p.items.push(Item::Label(l)); }
        }
        16 => {
            // jump to a label that is defined nowhere (and nothing else wrong)
            let mn: &'static str = *rng.pick(&["jmp", "jne", "loope"]);
            p.items.push(Item::Bad(Ins::Jcc { mn, label: "nosuch_L".into(), target: 0 }, mn.to_string()));
        }
        17 => {
            // unsupported interrupt number
            p.items.push(Item::Bad(Ins::Int { n: *rng.pick(&[0u32, 1, 2, 4, 0x11, 0x20, 0x22, 255]) }, "int".to_string()));
        }
        18 => {
            // an operand of the wrong kind inside an existing instruction: make a register operand the wrong width
            let mut v: Vec<&mut Ins> = Vec::new();
            all_ins_mut(&mut p.items, &mut v);
            let mut done = false;
            for i in v {
                if let Ins::BinArith { w, src, .. } | Ins::Logic { w, src, .. } | Ins::Mov { w, src, .. } = i {
                    if let Opnd::Reg8(_) = src { *src = Opnd::Reg16("bp"); done = true; let _ = w; break; }
                    if let Opnd::Reg16(_) = src { *src = Opnd::Reg8("ch"); done = true; break; }
                }
            }
            if !done { return None; }
        }
        19 => {
            // an immediate pushed out of range inside an existing instruction
            let mut v: Vec<&mut Ins> = Vec::new();
            all_ins_mut(&mut p.items, &mut v);
            let mut done = false;
            for i in v {
                if let Ins::BinArith { w, src: Opnd::Imm(x), .. } | Ins::Mov { w, src: Opnd::Imm(x), .. } = i {
                    *x = if *w == 8 { if rng.chance(1, 2) { 256 } else { -129 } } else if rng.chance(1, 2) { 65536 } else { -32769 };
                    done = true;
                    break;
                }
            }
            if !done { return None; }
        }
        20 => {
            // print statement inside a procedure / unknown print form
            if rng.chance(1, 2) {
                p.items.insert(0, Item::Proc { name: "prt_P".into(), body: vec![Item::Ins(Ins::Print { what: PrintWhat::Reg })] });
            } else {
                p.items.push(Item::Ins(Ins::Print { what: PrintWhat::Span(0xFFFF0, 0x10) }));
            }
        }
        22 => {
            // a jump / loop whose target is the name of a procedure (procedures and labels are different name spaces)
            let pname = p.items.iter().find_map(|x| match x { Item::Proc { name, .. } => Some(name.clone()), _ => None });
            let pname = match pname {
                Some(n) => n,
                None => {
                    // define one before start
                    let pos = p.items.iter().position(|x| matches!(x, Item::Label(n) if n == "start"))?;
                    p.items.insert(pos, Item::Proc { name: "tick_p".into(), body: vec![Item::Ins(Ins::UnArith { op: "inc", w: 16, dst: Opnd::Reg16("ax") })] });
                    "tick_p".to_string()
                }
            };
            p.items.push(Item::Bad(Ins::Jcc { mn: *rng.pick(&["jmp", "jnz", "loop", "jcxz", "loopne"]), label: pname, target: 0 }, String::new()));
        }
        _ => {
            // `start` defined as a data label only
            let pos = p.items.iter().position(|x| matches!(x, Item::Label(n) if n == "start"))?;
            p.items.remove(pos);
            p.data.push(DataItem::Def { label: Some("start".into()), dir: "db", form: DataForm::Num(1) });
        }
    }
    Some(p)
}

/// C19: the same source and input run K times in separate processes must give byte-identical
/// stdout and identical hook traces (diagnostics included)
pub fn gen_repeats(rng: &mut Rng, sh: &mut Shards, out: &str, thorough: bool) {
    let bin = bin_path();
    let dir = format!("{}/runs", out);
    std::fs::create_dir_all(&dir).unwrap();
    let k = if thorough { 20 } else { 5 };
    let mut progs: Vec<(Program, Layout)> = Vec::new();
    for i in 0..(if thorough { 120 } else { 30 }) {
        let mut g = Gen::new(rng);
        let mut kn = Knobs::control();
        kn.int3 = i % 3 == 0;
        kn.div = i % 4 == 0;
        let mut p = g.program(&kn);
        p.interp = i % 5 == 0;
        p.stdin = rand_script(rng, 30, 3);
        progs.push((p, Layout::random(rng)));
    }
    // invalid programs, in particular with several simultaneous errors
    let multi: Vec<Vec<Item>> = vec![
        vec![Item::Label("start".into()), Item::Ins(Ins::Jcc { mn: "jmp", label: "nolab_A".into(), target: 0 }), Item::Ins(Ins::Jcc { mn: "jz", label: "nolab_B".into(), target: 0 }), Item::Ins(Ins::Jcc { mn: "loop", label: "nolab_C".into(), target: 0 })],
        vec![Item::Label("start".into()), Item::Ins(Ins::Jcc { mn: "jnz", label: "zz_1".into(), target: 0 }), Item::Ins(Ins::Ctl { op: "nop" }), Item::Ins(Ins::Jcc { mn: "jmp", label: "aa_2".into(), target: 0 }), Item::Ins(Ins::Jcc { mn: "jmp", label: "mm_3".into(), target: 0 }), Item::Ins(Ins::Jcc { mn: "jmp", label: "bb_4".into(), target: 0 })],
        vec![Item::Ins(Ins::Jcc { mn: "jmp", label: "nolab_A".into(), target: 0 }), Item::Ins(Ins::Jcc { mn: "jmp", label: "nolab_B".into(), target: 0 })], // no start either
        vec![Item::Label("start".into()), Item::Ins(Ins::Unsupported { text: "into".into() }), Item::Ins(Ins::Jcc { mn: "jmp", label: "nolab_A".into(), target: 0 })],
        vec![Item::Label("start".into()), Item::Ins(Ins::Mov { w: 8, dst: Opnd::Reg8("al"), src: Opnd::Imm(300) }), Item::Ins(Ins::Mov { w: 8, dst: Opnd::Reg8("bl"), src: Opnd::Imm(400) })],
        // undefined labels reached through macros (positions inside an expansion are relative to the expanded text)
        vec![Item::Raw("macro skipto(l) -> jmp l <-".into()), Item::Label("start".into()),
             Item::Use { text: "skipto(first_missing)".into(), expands: vec![Ins::Jcc { mn: "jmp", label: "first_missing".into(), target: 0 }] },
             Item::Use { text: "skipto(second_missing)".into(), expands: vec![Ins::Jcc { mn: "jmp", label: "second_missing".into(), target: 0 }] },
             Item::Use { text: "skipto(third_missing)".into(), expands: vec![Ins::Jcc { mn: "jmp", label: "third_missing".into(), target: 0 }] }],
        vec![Item::Raw("macro two(a, b) -> jz a jnz b <-".into()), Item::Label("start".into()),
             Item::Use { text: "two(qq_1, zz_2)".into(), expands: vec![Ins::Jcc { mn: "jz", label: "qq_1".into(), target: 0 }, Ins::Jcc { mn: "jnz", label: "zz_2".into(), target: 0 }] },
             Item::Ins(Ins::Jcc { mn: "jmp", label: "aa_3".into(), target: 0 })],
    ];
    for (i, items) in multi.iter().enumerate() {
        for r in 0..(if thorough { 4 } else { 2 }) {
            let mut lay = Layout::plain();
            lay.blank = r as u64;
            progs.push((Program { data: Vec::new(), items: items.clone(), interp: false, stdin: Vec::new(), note: format!("multi-error-{}", i) }, lay));
        }
    }
    for (n, (p, lay)) in progs.iter().enumerate() {
        let r = render(p, lay, rng, n);
        let mut sin = Vec::new();
        for s in &p.stdin {
            sin.extend_from_slice(&s.bytes());
        }
        let runs: Vec<Vec<serde_json::Value>> = std::thread::scope(|s| {
            let hs: Vec<_> = (0..k).map(|j| {
                let (bin, dir, r, sin) = (&bin, &dir, &r, &sin);
                s.spawn(move || run_cli(bin, dir, n * 100 + j, r, sin, p.interp, 8000))
            }).collect();
            hs.into_iter().map(|h| h.join().unwrap()).collect()
        });
        let first = serde_json::to_string(&runs[0][1..]).unwrap();
        let mut identical = true;
        let mut what = String::new();
        for (j, run) in runs.iter().enumerate().skip(1) {
            let s = serde_json::to_string(&run[1..]).unwrap();
            if s != first {
                identical = false;
                // name the first event that differs
                let a = &runs[0];
                let pos = (1..a.len().min(run.len())).find(|q| a[*q] != run[*q]).unwrap_or(a.len().min(run.len()));
                what = format!("run {} differs from run 0 at event {}: {} vs {}", j, pos,
                               a.get(pos).map(|e| e.to_string()).unwrap_or_default().chars().take(200).collect::<String>(),
                               run.get(pos).map(|e| e.to_string()).unwrap_or_default().chars().take(200).collect::<String>());
                break;
            }
        }
        sh.count(&format!("repeat-programs:{}", if p.note.starts_with("multi") { "multi-error" } else { "generated" }), 1);
        sh.count("repeat-runs", k as u64);
        sh.unit(&[serde_json::json!({"ev":"repeat","runs":k,"identical":identical,"what":what,"note":p.note,"source":r.source})]);
    }
    let _ = std::fs::remove_dir_all(&dir);
}

/// valid programs x single semantic mutations + boundary values of the constant ranges (C14; C16 for the cited positions)
pub fn c14_programs(rng: &mut Rng, scale: usize) -> Vec<(Program, Layout)> {
    let mut progs: Vec<(Program, Layout)> = Vec::new();

            let nbase = 60 * scale;
            for i in 0..nbase {
                let mut g = Gen::new(rng);
                let mut k = Knobs::control();
                k.blocks = 3 + (i % 6);
                k.macros = false;
                k.prints = i % 2 == 0;
                let mut base = g.program(&k);
                // make sure there is something of every kind to mutate
                if !base.data.iter().any(|d| matches!(d, DataItem::Def { label: Some(_), .. })) {
                    base.data.push(DataItem::Def { label: Some("dvar_Q".into()), dir: "dw", form: DataForm::Num(5) });
                }
                base.items.push(Item::Ins(Ins::Jcc { mn: "jmp", label: "tail_Z".into(), target: 0 }));
                base.items.push(Item::Ins(Ins::Mov { w: 8, dst: Opnd::Reg8("al"), src: Opnd::Imm(200) }));
                base.items.push(Item::Ins(Ins::BinArith { op: "add", w: 16, dst: Opnd::Reg16("bx"), src: Opnd::Imm(-7) }));
                base.items.push(Item::Label("tail_Z".into()));
                base.items.push(Item::Ins(Ins::Ctl { op: "nop" }));
                // the unmutated original must run (vacuity guard)
                progs.push((base.clone(), Layout::plain()));
                let radix_layouts: Vec<Layout> = [Radix::Dec, Radix::Hex, Radix::Bin].iter().enumerate().map(|(q, r)| {
                    let mut l = Layout::plain();
                    l.force = Some(Spelling { case: if q == 1 { Case::Upper } else { Case::Lower }, radix: *r, wide: q == 2, nl: false });
                    l
                }).collect();
                for m in 0..crate::checks3::MUTATIONS {
                    if let Some(mut p) = mutate(&base, m, rng) {
                        p.note = format!("mutation-{}", m);
                        // constants are written in a different radix from program to program
                        progs.push((p, radix_layouts[(i + m) % 3].clone()));
                    }
                }
            }
            let boundary_start = progs.len();
            // boundary values of every constant range: the inside must be accepted, one step outside refused
            for (w, vals) in [(8u8, vec![-129i32, -128, -1, 0, 255, 256]), (16u8, vec![-32769, -32768, -1, 0, 65535, 65536])] {
                for v in vals {
                    let r = if w == 8 { Opnd::Reg8("dl") } else { Opnd::Reg16("dx") };
                    let m = Opnd::Mem { seg: "", base: "", index: "", disp: 0x3000, has_disp: true };
                    let cases: Vec<Ins> = vec![
                        Ins::Mov { w, dst: r.clone(), src: Opnd::Imm(v) },
                        Ins::Mov { w, dst: m.clone(), src: Opnd::Imm(v) },
                        Ins::BinArith { op: "sub", w, dst: r.clone(), src: Opnd::Imm(v) },
                        Ins::BinArith { op: "cmp", w, dst: m.clone(), src: Opnd::Imm(v) },
                        Ins::Logic { op: "xor", w, dst: r.clone(), src: Opnd::Imm(v) },
                        Ins::Logic { op: "test", w, dst: m.clone(), src: Opnd::Imm(v) },
                    ];
                    for ins in cases {
                        progs.push((Program { data: vec![], items: vec![Item::Label("start".into()), Item::Ins(ins)], interp: false, stdin: vec![], note: format!("boundary-{}-{}", w, v) }, Layout::plain()));
                    }
                    let dir: &'static str = if w == 8 { "db" } else { "dw" };
                    for form in [DataForm::Num(v), DataForm::Fill(v, 2)] {
                        progs.push((Program { data: vec![DataItem::Def { label: Some("bv".into()), dir, form }], items: vec![Item::Label("start".into()), Item::Ins(Ins::Ctl { op: "nop" })], interp: false, stdin: vec![], note: format!("boundary-data-{}-{}", w, v) }, Layout::plain()));
                    }
                }
            }
            for v in [0i32, 1, 255, 256] {
                progs.push((Program { data: vec![], items: vec![Item::Label("start".into()), Item::Ins(Ins::Shift { op: "rol", mn: "rol", w: 16, dst: Opnd::Reg16("ax"), cnt: Cnt::Imm(v as u32) })], interp: false, stdin: vec![], note: format!("boundary-count-{}", v) }, Layout::plain()));
            }
            for v in [-32769i32, -32768, 65535, 65536] {
                let m = Opnd::Mem { seg: "", base: "bx", index: "", disp: v, has_disp: true };
                progs.push((Program { data: vec![], items: vec![Item::Label("start".into()), Item::Ins(Ins::Mov { w: 16, dst: Opnd::Reg16("ax"), src: m })], interp: false, stdin: vec![], note: format!("boundary-disp-{}", v) }, Layout::plain()));
            }
            for v in [-1i32, 0, 65535, 65536] {
                let m = Opnd::Mem { seg: "", base: "", index: "", disp: v, has_disp: true };
                progs.push((Program { data: vec![], items: vec![Item::Label("start".into()), Item::Ins(Ins::Mov { w: 16, dst: Opnd::Reg16("ax"), src: m })], interp: false, stdin: vec![], note: format!("boundary-direct-{}", v) }, Layout::plain()));
            }
            for v in [0u32, 65535, 65536] {
                progs.push((Program { data: vec![DataItem::Set(v), DataItem::Def { label: None, dir: "db", form: DataForm::Zero(v) }], items: vec![Item::Label("start".into()), Item::Ins(Ins::Ctl { op: "nop" })], interp: false, stdin: vec![], note: format!("boundary-set-{}", v) }, Layout::plain()));
            }
            for n in [0u32, 2, 3, 4, 0x10, 0x11, 0x20, 0x21, 0x22, 255] {
                progs.push((Program { data: vec![], items: vec![Item::Label("start".into()), Item::Ins(Ins::Mov { w: 16, dst: Opnd::Reg16("ax"), src: Opnd::Imm(0x0200) }), Item::Ins(Ins::Int { n })], interp: false, stdin: vec![], note: format!("boundary-int-{}", n) }, Layout::plain()));
            }
            // OFFSET of a data label in a byte position: accepted up to offset 255, refused from 256 on; any offset in a word position
            for pad in [0u32, 254, 255, 256, 257, 4096] {
                let x = Opnd::Offset { name: "xoff".into(), off: 0 };
                let cases: Vec<Ins> = vec![
                    Ins::Mov { w: 8, dst: Opnd::Reg8("al"), src: x.clone() },
                    Ins::BinArith { op: "add", w: 8, dst: Opnd::Reg8("bl"), src: x.clone() },
                    Ins::Logic { op: "and", w: 8, dst: Opnd::Reg8("cl"), src: x.clone() },
                    Ins::Mov { w: 8, dst: Opnd::Mem { seg: "", base: "", index: "", disp: 0x3000, has_disp: true }, src: x.clone() },
                    Ins::Mov { w: 16, dst: Opnd::Reg16("dx"), src: x.clone() },
                    Ins::BinArith { op: "cmp", w: 16, dst: Opnd::Reg16("si"), src: x.clone() },
                ];
                for ins in cases {
                    let mut data = Vec::new();
                    if pad > 0 { data.push(DataItem::Def { label: Some("padq".into()), dir: "db", form: DataForm::Zero(pad) }); }
                    data.push(DataItem::Def { label: Some("xoff".into()), dir: "db", form: DataForm::Num(7) });
                    progs.push((Program { data, items: vec![Item::Label("start".into()), Item::Ins(Ins::Ctl { op: "stc" }), Item::Ins(ins)], interp: false, stdin: vec![], note: format!("boundary-offset-{}", pad) }, Layout::plain()));
                }
            }
            // the boundary programs once more with hexadecimal and binary constants
            let extra: Vec<(Program, Layout)> = progs[boundary_start..].iter().flat_map(|(p, _)| {
                [(Radix::Hex, Case::Upper), (Radix::Bin, Case::Lower)].iter().map(|(r, c)| {
                    let mut l = Layout::plain();
                    l.force = Some(Spelling { case: *c, radix: *r, wide: false, nl: false });
                    (p.clone(), l)
                }).collect::<Vec<_>>()
            }).collect();
            progs.extend(extra);
            progs
}

// ---------------------------------------------------------------------------------------------
// C15: any text is answered with a result or a diagnostic
// ---------------------------------------------------------------------------------------------
const SPECIAL: [&[u8]; 24] = [b"\"", b"[", b"]", b"(", b")", b"{", b"}", b";", b"\n", b"\r\n", b"\t", b"\0", b"\xff", b"\xc3\xa9", b"\xe2\x82\xac", b"->", b"<-", b":", b",", b"-", b"0x", b"0b", b"99999999999999999999", b"\x80"];

pub fn mutate_bytes(src: &[u8], rng: &mut Rng) -> Vec<u8> {
    let mut v = src.to_vec();
    let n = 1 + rng.below(3) as usize;
    for _ in 0..n {
        let pos = if v.is_empty() { 0 } else { rng.below(v.len() as u64 + 1) as usize };
        match rng.below(9) {
            0 if !v.is_empty() => { let p = pos.min(v.len() - 1); v.remove(p); }
            1 => { let s = SPECIAL[rng.below(SPECIAL.len() as u64) as usize]; for (k, b) in s.iter().enumerate() { v.insert((pos + k).min(v.len()), *b); } }
            2 if !v.is_empty() => { let p = pos.min(v.len() - 1); v[p] = rng.u8(); }
            3 => v.truncate(pos),
            4 if !v.is_empty() => {
                // duplicate a slice
                let a = pos.min(v.len() - 1);
                let b = (a + 1 + rng.below(12) as usize).min(v.len());
                let s: Vec<u8> = v[a..b].to_vec();
                for (k, x) in s.iter().enumerate() { v.insert(b + k, *x); }
            }
            5 if !v.is_empty() => { let p = pos.min(v.len() - 1); v[p] = v[p].to_ascii_uppercase(); }
            6 => {
                // token level: drop / duplicate / replace a whitespace-separated token
                let text = String::from_utf8_lossy(&v).to_string();
                let mut toks: Vec<&str> = text.split(' ').collect();
                if toks.len() > 1 {
                    let k = rng.below(toks.len() as u64) as usize;
                    match rng.below(3) { 0 => { toks.remove(k); } 1 => { let x = toks[k]; toks.insert(k, x); } _ => { let o = toks[rng.below(toks.len() as u64) as usize]; toks[k] = o; } }
                    v = toks.join(" ").into_bytes();
                }
            }
            7 => {
                // non-ASCII text at the end of some line (a later diagnostic must still slice correctly)
                let nls: Vec<usize> = v.iter().enumerate().filter(|(_, b)| **b == b'\n').map(|(i, _)| i).collect();
                if !nls.is_empty() {
                    let at = nls[rng.below(nls.len() as u64) as usize];
                    for (k, b) in " \u{e9}\u{20ac}".as_bytes().iter().enumerate() { v.insert(at + k, *b); }
                }
            }
            _ => { let s = SPECIAL[rng.below(SPECIAL.len() as u64) as usize]; for b in s.iter() { v.push(*b); } }
        }
    }
    v
}

fn pathological(rng: &mut Rng, thorough: bool) -> Vec<(String, Vec<u8>)> {
    let big = if thorough { 100_000 } else { 20_000 };
    let mut v: Vec<(String, Vec<u8>)> = vec![
        ("empty".into(), vec![]),
        ("only-newlines".into(), b"\n\n\n".to_vec()),
        ("no-final-newline".into(), b"start:\nmov ax, 1".to_vec()),
        ("no-newline-at-all-error".into(), b"start: mov ax".to_vec()),
        ("only-comment".into(), b"; nothing".to_vec()),
        ("non-ascii".into(), "start:\nmov ax, 1 ; caf\u{e9} \u{20ac}\nd\u{e9}f: hlt\n".as_bytes().to_vec()),
        ("non-ascii-in-string".into(), "x: db \"caf\u{e9}\"\nstart:\nhlt\n".as_bytes().to_vec()),
        ("syntax-error-before-non-ascii".into(), b"start:\nfoo bar \xc3\xa9\n".to_vec()),
        ("syntax-error-after-non-ascii-line".into(), "start:\nmov ax, 1 ; \u{e9}\u{e9}\u{e9}\n\u{20ac}\u{20ac}\u{20ac} mov bx 5\n".as_bytes().to_vec()),
        ("undefined-label-after-non-ascii".into(), "start:\n\u{e9}\u{e9}: nop\njmp nowhere\n".as_bytes().to_vec()),
        ("non-ascii-then-stepping".into(), "start:\nmov ax, 1\nprint reg ; \u{20ac}\nint 3\n".as_bytes().to_vec()),
        ("macro-direct-recursion".into(), b"macro a(r) -> inc r a(r) <-\nstart:\na(ax)\n".to_vec()),
        ("macro-mutual-recursion".into(), b"macro a(r) -> b(r) <-\nmacro b(r) -> dec r a(r) <-\nstart:\na(ax)\n".to_vec()),
        ("macro-recursion-after-sibling".into(), b"macro leaf(r) -> inc r <-\nmacro again(r) -> leaf(r) again(r) <-\nstart:\nagain(ax)\n".to_vec()),
        ("macro-recursion-after-two-siblings".into(), b"macro l1(r) -> inc r <-\nmacro l2(r) -> l1(r) dec r <-\nmacro m0(r) -> l2(r) l1(r) m2(r) <-\nmacro m2(r) -> l1(r) m0(r) <-\ndef f {\nm0(bx)\n}\nstart:\ncall f\n".to_vec()),
        ("macro-recursion-by-name".into(), b"macro app(k, r) -> k (k, r) <-\nstart:\napp(app, ax)\n".to_vec()),
        ("invalid-utf8".into(), b"start:\nmov ax, 1\n\xff\xfe\n".to_vec()),
        ("nul-bytes".into(), b"start:\n\0\0mov ax, 1\n".to_vec()),
        ("unbalanced-quote".into(), b"x: db \"abc\nstart:\nhlt\n".to_vec()),
        ("unbalanced-bracket".into(), b"start:\nmov ax, word [bx\nhlt\n".to_vec()),
        ("unbalanced-brace".into(), b"def f {\ninc ax\nstart:\nhlt\n".to_vec()),
        ("unbalanced-macro".into(), b"macro m(a) -> inc a\nstart:\nm(ax)\n".to_vec()),
        ("crlf".into(), b"start:\r\nmov ax, 1\r\nprint reg\r\n".to_vec()),
        ("tabs-formfeeds".into(), b"start:\x0c\tmov\x0bax, 1\n".to_vec()),
    ];
    let digits: String = std::iter::repeat('9').take(big).collect();
    v.push(("huge-decimal".into(), format!("start:\nmov ax, {}\n", digits).into_bytes()));
    v.push(("huge-hex".into(), format!("start:\nmov ax, 0x{}\n", digits).into_bytes()));
    v.push(("huge-binary".into(), format!("x: db 0b{}\nstart:\nhlt\n", std::iter::repeat('1').take(big).collect::<String>()).into_bytes()));
    v.push(("huge-print-constant".into(), format!("start:\nprint mem {} -> 5\n", digits).into_bytes()));
    v.push(("huge-string".into(), format!("x: db \"{}\"\nstart:\nhlt\n", std::iter::repeat('a').take(big).collect::<String>()).into_bytes()));
    v.push(("very-long-label".into(), format!("start:\njmp {}\n", std::iter::repeat('L').take(big).collect::<String>()).into_bytes()));
    let mut many = String::from("start:\n");
    for i in 0..(big / 4) { many.push_str(if i % 2 == 0 { "inc ax\n" } else { "dec bx\n" }); }
    v.push(("many-lines".into(), many.into_bytes()));
    let mut manyl = String::from("start:\n");
    for i in 0..(big / 20) { manyl.push_str(&format!("lab{}:\n", i)); }
    v.push(("many-labels".into(), manyl.into_bytes()));
    let mut comments = String::from("start:\n");
    for _ in 0..(big / 10) { comments.push_str("; c\n"); }
    comments.push_str("mov ax,\n");
    v.push(("error-after-many-comment-lines".into(), comments.into_bytes()));
    // macro chains around the nesting limit and far beyond it (each level used to re-enter the parser on the native stack)
    let depths: &[usize] = if thorough { &[64, 128, 129, 400, 1000, 4096] } else { &[64, 128, 129, 400, 1000] };
    for depth in depths {
        let (chain, _) = crate::checks2::chain_source(*depth);
        v.push((format!("macro-chain-{}", depth), chain.into_bytes()));
    }
    // a macro use with far more arguments than parameters, and a macro with many parameters
    for nargs in [11usize, 81, 200, 1000] {
        let args: Vec<String> = (0..nargs).map(|i| format!("{}", i + 1)).collect();
        v.push((format!("macro-use-{}-arguments", nargs), format!("macro m(a) -> mov ax, a <-\nstart:\nm({})\nprint reg\n", args.join(", ")).into_bytes()));
    }
    for nparams in [11usize, 100, 300] {
        let ps: Vec<String> = (0..nparams).map(|i| format!("p{}", i)).collect();
        let body: Vec<String> = (0..nparams).map(|i| format!("mov ax, p{}", i)).collect();
        let args: Vec<String> = (0..nparams).map(|i| format!("{}", i + 1)).collect();
        v.push((format!("macro-{}-parameters", nparams), format!("macro m({}) -> {} <-\nstart:\nm({})\nprint reg\n", ps.join(", "), body.join(" "), args.join(", ")).into_bytes()));
    }
    let nested: String = std::iter::repeat("[").take(big / 10).collect();
    v.push(("deep-brackets".into(), format!("start:\nmov ax, word {}\n", nested).into_bytes()));
    let _ = rng;
    v
}

pub fn gen_c15(rng: &mut Rng, sh: &mut Shards, out: &str, thorough: bool) {
    let bin = bin_path();
    let dir = format!("{}/runs", out);
    std::fs::create_dir_all(&dir).unwrap();
    // (source bytes, stdin bytes, interp, note)
    let mut cases: Vec<(Vec<u8>, Vec<u8>, bool, String)> = Vec::new();
    for (n, b) in pathological(rng, thorough) {
        cases.push((b.clone(), b"n\nn\n".to_vec(), false, format!("family-{}", n)));
        cases.push((b, b"".to_vec(), true, format!("family-{}-interpreted", n)));
    }
    let nbase = if thorough { 400 } else { 60 };
    let per = if thorough { 25 } else { 12 };
    for i in 0..nbase {
        let mut g = Gen::new(rng);
        let mut k = Knobs::control();
        k.int3 = i % 4 == 0;
        let p = g.program(&k);
        let r = render(&p, &Layout::random(rng), rng, i);
        for _ in 0..per {
            let m = mutate_bytes(r.source.as_bytes(), rng);
            let stdin = if rng.chance(1, 3) { mutate_bytes(b"n\nprint reg\nn\nq\n", rng) } else { b"n\nn\nn\nn\nn\nn\nn\nn\n".to_vec() };
            cases.push((m, stdin, rng.chance(1, 5), "mutant".into()));
        }
    }
    // strings given to the print reader: commands typed at the prompt of a stepping run (byte mutations of valid
    // commands, and every number position filled with boundary and oversized constants in the three radices)
    let stepping = b"start:\nmov ax, 1\nint 3\nmov bx, 2\nprint reg\nmov cx, 3\n".to_vec();
    let cmds: [&str; 9] = ["print reg", "print flags", "print mem 0 -> 16", "print mem 0x10 : 4", "print mem : 5", "print mem 0b101 -> 0b111", "PRINT MEM 0XFFFF0 -> 0XFFFFF", "n", "next"];
    let consts: Vec<String> = vec![
        "0".into(), "1048574".into(), "1048575".into(), "1048576".into(), "1048577".into(), "0xFFFFF".into(), "0x100000".into(), "0x100001".into(), "0xFFFFFF".into(),
        "0x1000000".into(), "0xFFFFFFFF".into(), "0x100000000".into(), "4294967295".into(), "4294967296".into(), "18446744073709551615".into(), "18446744073709551616".into(),
        "99999999999999999999999".into(), "0xFFFFFFFFFFFFFFFFF".into(), format!("0b1{}", "0".repeat(20)), format!("0b{}", "1".repeat(20)), format!("0b{}", "1".repeat(70)), "-1".into(), "00000000000000000000001".into(),
        "0X100000".into(), "0B100000000000000000000".into(),
    ];
    for i in 0..(if thorough { 300 } else { 50 }) {
        let mut sin: Vec<u8> = Vec::new();
        for _ in 0..40 {
            let c = *rng.pick(&cmds);
            let line: Vec<u8> = match rng.below(3) {
                0 => mutate_bytes(c.as_bytes(), rng),
                _ => {
                    // replace every number of the command by a drawn constant
                    let toks: Vec<String> = c.split(' ').map(|t| if t.chars().next().map_or(false, |ch| ch.is_ascii_digit()) { rng.pick(&consts).clone() } else { t.to_string() }).collect();
                    toks.join(" ").into_bytes()
                }
            };
            sin.extend(line);
            sin.push(b'\n');
        }
        cases.push((stepping.clone(), sin, i % 2 == 0, "prompt-commands".into()));
    }
    // print statements and prompt print commands whose last byte is the last byte of the 1 MB space, one before it, or
    // one / two beyond it -- with DS far from 0 for the DS-relative form (seeded change C15-n: `print mem :16` with
    // DS = FFFFh indexed the memory at 100000h)
    for seg in [0xFFFFu32, 0xFFF0, 0xFF00, 0xF001, 0x0000] {
        for d in [-2i64, -1, 0, 1, 2] {
            let mb: i64 = 1 << 20;
            let n = mb - (seg as i64) * 16 + d;
            let a = mb - 40 - (seg as i64 % 7);
            let forms = [format!("print mem : {}", n), format!("print mem {} : {}", a, mb - a + d), format!("print mem 0x{:x} -> {}", a, mb - 1 + d), format!("PRINT MEM 0b{:b} : 0x{:x}", a, mb - a + d)];
            if n > 70_000 { continue; }
            for f in forms.iter() {
                let src = format!("start:\nmov ax, {}\nmov ds, ax\n{}\nprint reg\n", seg, f);
                cases.push((src.into_bytes(), b"".to_vec(), false, "print-top".into()));
            }
            let src = format!("start:\nmov ax, {}\nmov ds, ax\nint 3\nprint flags\n", seg);
            cases.push((src.into_bytes(), format!("{}\n{}\n{}\n{}\nn\n", forms[0], forms[1], forms[2], forms[3]).into_bytes(), d == 0, "print-top-prompt".into()));
        }
    }
    let threads = 16;
    let results: Vec<Vec<serde_json::Value>> = {
        let chunk = (cases.len() + threads - 1) / threads;
        let mut all: Vec<Vec<Vec<serde_json::Value>>> = Vec::new();
        std::thread::scope(|s| {
            let mut hs = Vec::new();
            for (ci, part) in cases.chunks(chunk.max(1)).enumerate() {
                let (bin, dir) = (&bin, &dir);
                hs.push(s.spawn(move || {
                    part.iter().enumerate().map(|(k, (src, sin, interp, note))| {
                        let n = ci * chunk.max(1) + k;
                        let shown: String = String::from_utf8_lossy(&src[..src.len().min(400)]).to_string();
                        let rendered = Rendered { source: String::new(), json: serde_json::json!({"ev":"program","n":n,"raw":true,"note":note,"source_head":shown,"source_len":src.len()}) };
                        // the size/depth families legitimately take seconds in the unoptimised binary (a 128-deep macro chain: 5 s on a busy
                        // machine): their watchdog is generous; a hang is still a hang after 90 s
                        run_cli_bytes(bin, dir, n, &rendered, src, sin, *interp, if note.starts_with("family") { 90000 } else { 20000 })
                    }).collect::<Vec<_>>()
                }));
            }
            for h in hs { all.push(h.join().unwrap()); }
        });
        all.into_iter().flatten().collect()
    };
    for (evs, c) in results.iter().zip(cases.iter()) {
        sh.count(&format!("cli:{}", if c.3.starts_with("family") { "family" } else { "mutant" }), 1);
        // only the frame of the run matters here: keep the program, the diagnostics, the exit and the stdout events
        let slim: Vec<serde_json::Value> = evs.iter().filter(|e| matches!(e["ev"].as_str(), Some("program") | Some("diag") | Some("exit") | Some("stdout"))).map(|e| {
            if e["ev"] == "stdout" { let mut x = e.clone(); let b: Vec<serde_json::Value> = x["bytes"].as_array().unwrap().iter().take(200).cloned().collect(); x["bytes"] = serde_json::json!(b); x } else { e.clone() }
        }).collect();
        sh.unit(&slim);
    }
    cmdline_family(&bin, &dir, sh);
    let _ = std::fs::remove_dir_all(&dir);
}

/// the command line of the binary (src/bin.rs): every kind of argument list; Driver!CmdLine says what must happen
fn cmdline_family(bin: &str, dir: &str, sh: &mut Shards) {
    use std::io::{Read, Write};
    use std::process::{Command, Stdio};
    let text = format!("{}/cmd_text.s", dir);
    let binary = format!("{}/cmd_binary.s", dir);
    let adir = format!("{}/cmd_dir.s", dir);
    let missing = format!("{}/cmd_missing.s", dir);
    let _ = std::fs::create_dir_all(dir);
    std::fs::write(&text, b"start:\nmov ax, 1\nprint reg\n").unwrap();
    std::fs::write(&binary, b"start:\nmov ax, 1\n\xff\xfe\nprint reg\n").unwrap();
    let _ = std::fs::create_dir_all(&adir);
    let f = |st: &str| format!("file:{}", st);
    let lists: Vec<Vec<String>> = vec![
        vec![], vec!["-i".into()], vec!["--interpreted".into()],
        vec![f("text")], vec!["-i".into(), f("text")], vec![f("text"), "-i".into()], vec!["--interpreted".into(), f("text")], vec![f("text"), "--interpreted".into()],
        vec![f("missing")], vec!["-i".into(), f("missing")], vec![f("missing"), "-i".into()],
        vec![f("dir")], vec!["-i".into(), f("dir")], vec![f("binary")], vec![f("binary"), "--interpreted".into()],
        vec!["-x".into(), f("text")], vec![f("text"), "-x".into()], vec!["--nope".into(), f("text")], vec!["-I".into(), f("text")], vec!["--Interpreted".into(), f("text")],
        vec![f("text"), f("text")], vec![f("text"), f("missing")], vec![f("missing"), f("text")],
        vec!["-i".into(), "-i".into(), f("text")], vec!["-i".into(), "--interpreted".into(), f("text")], vec!["-i".into(), f("text"), "-i".into()],
        vec!["-h".into()], vec!["--help".into()], vec!["-V".into()], vec!["--version".into()], vec!["-h".into(), f("text")], vec![f("text"), "-h".into()],
        vec!["--version".into(), f("text")], vec![f("missing"), "--help".into()], vec!["-i".into(), "-V".into()],
    ];
    for args in lists {
        let mut argv: Vec<serde_json::Value> = Vec::new();
        let mut real: Vec<String> = Vec::new();
        for a in &args {
            if let Some(st) = a.strip_prefix("file:") {
                argv.push(serde_json::json!({"k":"file","state":st}));
                real.push(match st { "text" => text.clone(), "binary" => binary.clone(), "dir" => adir.clone(), _ => missing.clone() });
            } else {
                argv.push(serde_json::json!({"k":"flag","name":a}));
                real.push(a.clone());
            }
        }
        let mut child = Command::new(bin).args(&real).env("RUST_BACKTRACE", "0").stdin(Stdio::piped()).stdout(Stdio::piped()).stderr(Stdio::null()).spawn().expect("spawn emulator binary");
        {
            let mut si = child.stdin.take().unwrap();
            let _ = si.write_all(b"n\nn\nn\nn\nn\nn\n");
        }
        let mut so = child.stdout.take().unwrap();
        let reader = std::thread::spawn(move || { let mut b = Vec::new(); let _ = so.read_to_end(&mut b); b });
        let t0 = std::time::Instant::now();
        let mut timeout = false;
        let status: i64 = loop {
            match child.try_wait() {
                Ok(Some(st)) => break st.code().map(|c| c as i64).unwrap_or(-1),
                Ok(None) => {
                    if t0.elapsed() > std::time::Duration::from_secs(20) { timeout = true; let _ = child.kill(); let _ = child.wait(); break -2; }
                    std::thread::sleep(std::time::Duration::from_millis(5));
                }
                Err(_) => break -3,
            }
        };
        let out = reader.join().unwrap_or_default();
        let txt = String::from_utf8_lossy(&out).to_string();
        let ran = txt.contains("Output of line 3");
        let prompts = txt.matches(">>> ").count();
        let bytes: Vec<u8> = out.iter().take(600).cloned().collect();
        sh.count("cli:command-line", 1);
        sh.unit(&[serde_json::json!({"ev":"cmdline","argv":argv,"args":args.join(" "),"status":status,"timeout":timeout,"bytes":bytes,"ran":ran,"prompts":prompts})]);
    }
}

fn examples_dir() -> String {
    std::env::var("VERIF_EXAMPLES").unwrap_or_else(|_| "/repo/examples".to_string())
}

/// /repo/examples/*.s through the real binary: the real file's bytes, the transcribed tree (harness/src/examples.rs) with
/// the real file's line numbers and texts.  Plain run; and, for the checks about stepping, prompts and messages, a
/// single-stepped run (`-i`, every prompt answered `next`, with print commands in between).
pub fn run_examples(bin: &str, dir: &str, sh: &mut Shards, prop: &str, rng: &mut Rng) {
    std::fs::create_dir_all(dir).unwrap();
    let ex = examples_dir();
    for (k, (name, stmts)) in crate::examples::examples().iter().enumerate() {
        match crate::examples::load(&ex, name, stmts, 900_000 + k) {
            None => sh.count("examples-not-as-transcribed", 1),
            Some((text, _p, ev)) => {
                let r = Rendered { source: text.clone(), json: ev.clone() };
                let evs = run_cli(bin, dir, 900_000 + k, &r, b"", false, 20_000);
                sh.count(&format!("{}-example-runs", prop), 1);
                sh.count(&format!("{}-example-steps", prop), evs.iter().filter(|e| e["ev"] == "step").count() as u64);
                sh.unit(&evs);
                if matches!(prop, "C16" | "C17" | "C20") {
                    let mut script: Vec<ScriptLine> = Vec::new();
                    for i in 0..400 {
                        if i % 7 == 3 { script.push(rand_print_cmd(rng)); }
                        script.push(ScriptLine::next(rng));
                    }
                    let mut ev2 = ev.clone();
                    ev2["interp"] = serde_json::json!(true);
                    ev2["stdin"] = serde_json::Value::Array(script.iter().map(|s| s.to_json()).collect());
                    ev2["n"] = serde_json::json!(910_000 + k);
                    let mut sin = Vec::new();
                    for s in &script { sin.extend_from_slice(&s.bytes()); }
                    let r2 = Rendered { source: text, json: ev2 };
                    let evs = run_cli(bin, dir, 910_000 + k, &r2, &sin, true, 30_000);
                    sh.count(&format!("{}-example-stepped-runs", prop), 1);
                    sh.unit(&evs);
                }
            }
        }
    }
}

/// C11: the text of each example and the harness's own rendering of its transcribed tree (other letter case, other
/// radix, other spacing) must make the assembler emit the same instruction and data lists
pub fn examples_spelling(asm: &crate::exec::Asm, rng: &mut Rng, sh: &mut Shards) {
    let ex = examples_dir();
    let strip = |t: &str| -> String { t.split('\n').map(|l| l.split(';').next().unwrap_or("")).collect::<Vec<_>>().join("\n") };
    for (k, (name, stmts)) in crate::examples::examples().iter().enumerate() {
        match crate::examples::load(&ex, name, stmts, k) {
            None => sh.count("examples-not-as-transcribed", 1),
            Some((text, p, ev)) => {
                let mut lists: Vec<Vec<String>> = Vec::new();
                let mut texts = vec![strip(&text)];
                for force in [Spelling { case: Case::Lower, radix: Radix::Dec, wide: false, nl: false }, Spelling { case: Case::Upper, radix: Radix::Bin, wide: true, nl: false }] {
                    let mut lay = Layout::plain();
                    lay.force = Some(force);
                    texts.push(render(&p, &lay, rng, k).source);
                }
                for t in &texts {
                    match asm.assemble(t) {
                        Ok(a) => { let mut l = a.out.data.clone(); l.push("--code--".into()); l.extend(a.out.code.iter().cloned()); lists.push(l); }
                        Err(e) => lists.push(vec![format!("refused: {}", e.chars().take(200).collect::<String>())]),
                    }
                }
                let same = lists.iter().all(|l| *l == lists[0]) && !lists[0][0].starts_with("refused");
                sh.count("example-spellings", 1);
                sh.unit(&[serde_json::json!({"ev":"spelling","same":same,"ast":{"example":name,"items":ev["items"]},"lists":lists})]);
            }
        }
    }
}
