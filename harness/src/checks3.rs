//! Driver-level workloads: programs run through the real binary (hook on), validated by TraceRun.
use crate::ast::*;
use crate::cli::*;
use crate::gen::*;
use crate::progs::*;

pub fn bin_path() -> String {
    std::env::var("VERIF_CLI").unwrap_or_else(|_| "/verif/target/repo/debug/emulator_8086".to_string())
}

fn nexts(rng: &mut Rng, n: usize) -> Vec<ScriptLine> {
    (0..n).map(|_| ScriptLine::next(rng)).collect()
}

fn rand_print_cmd(rng: &mut Rng) -> ScriptLine {
    let what = match rng.below(6) {
        0 => PrintWhat::Flags,
        1 => PrintWhat::Reg,
        2 => {
            let a = rng.below(0x5000) as u32;
            PrintWhat::Range(a, a + rng.below(40) as u32)
        }
        3 => PrintWhat::Span(rng.below(0x5000) as u32, rng.below(36) as u32),
        4 => PrintWhat::DsSpan(rng.below(36) as u32),
        _ => PrintWhat::Range(5 + rng.below(100) as u32, rng.below(5) as u32), // backwards
    };
    ScriptLine::print(what, rng.chance(1, 4))
}

/// a prompt script: mostly next, some prints and garbage, optionally cut short or ended by quit
pub fn rand_script(rng: &mut Rng, len: usize, end: u64) -> Vec<ScriptLine> {
    let mut v = Vec::new();
    for _ in 0..len {
        match rng.below(10) {
            0 | 1 => v.push(rand_print_cmd(rng)),
            2 => v.push(ScriptLine::garbage(rng)),
            _ => v.push(ScriptLine::next(rng)),
        }
    }
    match end {
        0 => v.push(ScriptLine::quit(rng)),
        1 => {
            // last line without a newline
            let mut s = ScriptLine::next(rng);
            s.newline = false;
            v.push(s);
        }
        _ => {}
    }
    v
}

pub fn gen_driver(prop: &str, rng: &mut Rng, sh: &mut Shards, out: &str, thorough: bool) {
    let bin = bin_path();
    let dir = format!("{}/runs", out);
    let mut progs: Vec<(Program, Layout)> = Vec::new();
    let scale = if thorough { 10 } else { 1 };
    match prop {
        "C08" => {
            for i in 0..(300 * scale) {
                let mut g = Gen::new(rng);
                let mut k = Knobs::control();
                k.blocks = 4 + (i % 12);
                k.div = i % 10 == 0;
                let p = g.program(&k);
                let lay = if i % 3 == 0 { Layout::plain() } else { Layout::random(rng) };
                progs.push((p, lay));
            }
        }
        "C16" => {
            for i in 0..(240 * scale) {
                let mut g = Gen::new(rng);
                let mut k = Knobs::control();
                k.int3 = i % 2 == 0;
                k.div = i % 3 == 0;
                k.blocks = 3 + (i % 8);
                let mut p = g.program(&k);
                p.interp = i % 4 == 1;
                p.stdin = nexts(rng, 400);
                progs.push((p, Layout::random(rng)));
            }
        }
        "C17" => {
            for i in 0..(200 * scale) {
                let mut g = Gen::new(rng);
                let mut k = Knobs::control();
                k.int3 = true;
                k.blocks = 6 + (i % 8);
                let mut p = g.program(&k);
                // print commands typed at INT 3 prompts
                let mut s = Vec::new();
                for _ in 0..120 {
                    if rng.chance(2, 3) { s.push(rand_print_cmd(rng)); } else { s.push(ScriptLine::next(rng)); }
                }
                s.extend(nexts(rng, 200));
                p.stdin = s;
                progs.push((p, Layout::random(rng)));
            }
        }
        "C20" => {
            for i in 0..(300 * scale) {
                let mut g = Gen::new(rng);
                let mut k = Knobs::control();
                k.int3 = i % 3 == 0;
                k.blocks = 3 + (i % 7);
                let mut p = g.program(&k);
                match i % 3 {
                    0 => p.interp = true,
                    1 => {
                        // trap flag set by POPF at the start (and sometimes cleared again later)
                        let mut pre = vec![Item::Ins(Ins::Mov { w: 16, dst: Opnd::Reg16("ax"), src: Opnd::Imm(0x0100 | (rng.below(256) as i32 & 0xD5)) }), Item::Ins(Ins::Push { src: Opnd::Reg16("ax") }), Item::Ins(Ins::FlagsX { op: "popf" })];
                        let pos = p.items.iter().position(|x| matches!(x, Item::Label(n) if n == "start")).unwrap() + 1;
                        let rest = p.items.split_off(pos);
                        p.items.append(&mut pre);
                        p.items.extend(rest);
                        if rng.chance(1, 2) {
                            p.items.push(Item::Ins(Ins::Mov { w: 16, dst: Opnd::Reg16("ax"), src: Opnd::Imm(0) }));
                            p.items.push(Item::Ins(Ins::Push { src: Opnd::Reg16("ax") }));
                            p.items.push(Item::Ins(Ins::FlagsX { op: "popf" }));
                            p.items.push(Item::Ins(Ins::Ctl { op: "nop" }));
                        }
                    }
                    _ => {}
                }
                let len = match rng.below(4) { 0 => rng.below(6) as usize, 1 => 10 + rng.below(30) as usize, _ => 300 };
                let end = rng.below(4);
                p.stdin = rand_script(rng, len, end);
                progs.push((p, Layout::random(rng)));
            }
        }
        _ => panic!("harness: no driver workload for {}", prop),
    }
    // degenerate shapes: nothing after `start:`, only a halt, a label as the very last thing,
    // a procedure as the only code before start
    if prop == "C08" || prop == "C20" || prop == "C16" {
        let shapes: Vec<Vec<Item>> = vec![
            vec![Item::Label("start".into())],
            vec![Item::Label("start".into()), Item::Ins(Ins::Ctl { op: "hlt" })],
            vec![Item::Label("start".into()), Item::Ins(Ins::Ctl { op: "nop" })],
            vec![Item::Label("start".into()), Item::Ins(Ins::Jcc { mn: "jmp", label: "fin".into(), target: 0 }), Item::Ins(Ins::Ctl { op: "stc" }), Item::Label("fin".into())],
            vec![Item::Proc { name: "pq".into(), body: vec![Item::Ins(Ins::Ctl { op: "stc" })] }, Item::Label("start".into())],
            vec![Item::Proc { name: "pq".into(), body: vec![Item::Ins(Ins::Ctl { op: "stc" })] }, Item::Label("start".into()), Item::Ins(Ins::Call { name: "pq".into(), target: 0 })],
            vec![Item::Ins(Ins::Ctl { op: "cmc" }), Item::Label("start".into()), Item::Ins(Ins::Int { n: 3 })],
            vec![Item::Label("start".into()), Item::Ins(Ins::Print { what: PrintWhat::Flags })],
        ];
        for (i, s) in shapes.iter().enumerate() {
            for interp in [false, true] {
                for nl in [true, false] {
                    let mut lay = Layout::plain();
                    lay.trailing_newline = nl;
                    let stdin = if i % 2 == 0 { nexts(rng, 6) } else { Vec::new() };
                    progs.push((Program { data: Vec::new(), items: s.clone(), interp, stdin, note: format!("degenerate-{}", i) }, lay));
                }
            }
        }
    }
    run_batch(&bin, &dir, &progs, rng, sh, &format!("{}-runs", prop), 16);
    if std::env::var("VERIF_KEEP_SRC").is_err() {
        let _ = std::fs::remove_dir_all(&dir);
    }
}
