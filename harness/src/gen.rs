//! Common generator infrastructure: seeded RNG, boundary lattices, sharded ndjson writer,
//! single-instruction programs assembled with the real Preprocessor.
use crate::ast::*;
use crate::exec::*;
use serde_json::{json, Value};
use std::fs::File;
use std::io::{BufWriter, Write};

pub struct Rng(pub u64);
impl Rng {
    pub fn new(seed: u64) -> Rng {
        Rng(seed.wrapping_mul(0x9E3779B97F4A7C15) ^ 0xD1B54A32D192ED03)
    }
    pub fn next(&mut self) -> u64 {
        // xorshift64*
        let mut x = self.0;
        if x == 0 {
            x = 0x2545F4914F6CDD1D;
        }
        x ^= x >> 12;
        x ^= x << 25;
        x ^= x >> 27;
        self.0 = x;
        x.wrapping_mul(0x2545F4914F6CDD1D)
    }
    pub fn below(&mut self, n: u64) -> u64 {
        (self.next() >> 11) % n
    }
    pub fn u16(&mut self) -> u16 {
        (self.next() >> 20) as u16
    }
    pub fn u8(&mut self) -> u8 {
        (self.next() >> 24) as u8
    }
    pub fn pick<'a, T>(&mut self, xs: &'a [T]) -> &'a T {
        &xs[self.below(xs.len() as u64) as usize]
    }
    pub fn chance(&mut self, num: u64, den: u64) -> bool {
        self.below(den) < num
    }
    /// a 16-bit value biased towards boundaries
    pub fn w16(&mut self) -> u16 {
        if self.chance(1, 2) {
            *self.pick(&lattice16())
        } else {
            self.u16()
        }
    }
}

pub fn lattice16() -> Vec<u16> {
    let mut v: Vec<u32> = vec![0, 1, 2, 3, 9, 10, 15, 16, 17, 0x7F, 0x80, 0x81, 0xFE, 0xFF, 0x100, 0x101];
    for k in 2..16 {
        let p = 1u32 << k;
        v.push(p - 1);
        v.push(p);
        v.push(p + 1);
        v.push(65536 - p);
        v.push(65536 - p - 1);
        v.push(65536 - p + 1);
    }
    for x in [0x7FFE, 0x7FFF, 0x8000, 0x8001, 0xFFFE, 0xFFFF, 0x0FFF, 0xF000, 0xFF00, 0x00F0, 0xFFF0, 0x5555, 0xAAAA, 0x1234, 0x9999, 0x0909] {
        v.push(x);
    }
    let mut w: Vec<u16> = v.into_iter().filter(|x| *x < 65536).map(|x| x as u16).collect();
    w.sort();
    w.dedup();
    w
}

pub fn lattice8() -> Vec<u8> {
    vec![0, 1, 2, 7, 8, 9, 10, 15, 16, 17, 0x3F, 0x40, 0x41, 0x7E, 0x7F, 0x80, 0x81, 0x99, 0x9A, 0xA0, 0xF0, 0xFE, 0xFF]
}

/// Sharded ndjson writer: independent units go to shards round-robin
pub struct Shards {
    files: Vec<BufWriter<File>>,
    next: usize,
    pub events: u64,
    pub units: u64,
    pub samples: Vec<Value>,
    pub counters: std::collections::BTreeMap<String, u64>,
}

impl Shards {
    pub fn new(dir: &str, n: usize) -> Shards {
        std::fs::create_dir_all(dir).unwrap();
        let files = (0..n)
            .map(|i| BufWriter::new(File::create(format!("{}/trace_{:02}.ndjson", dir, i)).unwrap()))
            .collect();
        Shards { files, next: 0, events: 0, units: 0, samples: Vec::new(), counters: Default::default() }
    }
    /// write one unit (a self-contained run of events) to the next shard
    pub fn unit(&mut self, evs: &[Value]) {
        for e in evs {
            if let Some(k) = e.get("ev").and_then(|x| x.as_str()) {
                if k == "asmfail" || k == "nonterminating" {
                    *self.counters.entry(format!("!{}", k)).or_insert(0) += 1;
                }
            }
        }
        let f = &mut self.files[self.next];
        for e in evs {
            serde_json::to_writer(&mut *f, e).unwrap();
            f.write_all(b"\n").unwrap();
        }
        self.events += evs.len() as u64;
        self.units += 1;
        if self.samples.len() < 3 || (self.units % 997 == 0 && self.samples.len() < 8) {
            if let Some(e) = evs.last() {
                self.samples.push(trim_sample(e));
            }
        }
        self.next = (self.next + 1) % self.files.len();
    }
    pub fn count(&mut self, key: &str, n: u64) {
        *self.counters.entry(key.to_string()).or_insert(0) += n;
    }
    pub fn finish(mut self, dir: &str, extra: Value) {
        for f in self.files.iter_mut() {
            f.flush().unwrap();
        }
        let meta = json!({"events": self.events, "units": self.units, "samples": self.samples,
                          "counters": self.counters, "extra": extra});
        std::fs::write(format!("{}/gen_meta.json", dir), serde_json::to_string_pretty(&meta).unwrap()).unwrap();
    }
}

/// long arrays are cut so that evidence samples stay readable
fn trim_sample(e: &Value) -> Value {
    match e {
        Value::Object(m) => {
            let mut o = serde_json::Map::new();
            for (k, v) in m {
                o.insert(k.clone(), trim_sample(v));
            }
            Value::Object(o)
        }
        Value::Array(a) if a.len() > 8 => {
            let mut v: Vec<Value> = a.iter().take(8).map(trim_sample).collect();
            v.push(json!(format!("... {} items", a.len())));
            Value::Array(v)
        }
        Value::Array(a) => Value::Array(a.iter().map(trim_sample).collect()),
        _ => e.clone(),
    }
}

/// A data label wanted at a given offset of segment 0's data area
#[derive(Clone, Debug)]
pub struct DataLabel {
    pub name: String,
    pub off: u32,
}

/// Source of a program consisting of the data labels, `start:`, `pre` filler instructions,
/// the instruction under test, and trailing code labels; returns (source, index of the instruction)
pub fn program_for(ins: &Ins, labels: &[DataLabel], sp: &Spelling) -> (String, usize) {
    let mut src = String::new();
    let mut ls: Vec<DataLabel> = labels.to_vec();
    ls.sort_by_key(|l| l.off);
    let mut at: u32 = 0;
    for l in &ls {
        if l.off > at {
            src.push_str(&format!("db [{}]\n", l.off - at));
            at = l.off;
        }
        // one byte so that consecutive labels stay distinct
        src.push_str(&format!("{}: db 0\n", l.name));
        at += 1;
    }
    let mut idx = 0usize;
    match ins {
        Ins::Jcc { label, target, .. } => {
            // target index `target`: put the label after `target` instructions
            src.push_str("start:\n");
            let mut n = 0usize;
            // the instruction under test sits at index max(target,1)-? : keep it simple:
            // layout: [t fillers] label: [1 filler] ins   (target = t, ins index = t + 1)
            for _ in 0..*target {
                src.push_str("clc\n");
                n += 1;
            }
            src.push_str(&format!("{}:\n", label));
            src.push_str("clc\n");
            n += 1;
            idx = n;
            src.push_str(&ins.to_src(sp));
            src.push('\n');
        }
        Ins::Call { name, target } => {
            // `target` filler instructions, then the procedure (its first instruction has index `target`)
            for _ in 0..*target {
                src.push_str("clc\n");
            }
            src.push_str(&format!("def {} {{\nclc\n}}\n", name));
            src.push_str("start:\n");
            idx = *target + 2;
            src.push_str(&ins.to_src(sp));
            src.push('\n');
        }
        _ => {
            src.push_str("start:\n");
            src.push_str(&ins.to_src(sp));
            src.push('\n');
        }
    }
    (src, idx)
}

pub fn labels_of(ins: &Ins) -> Vec<DataLabel> {
    let mut v = Vec::new();
    let mut add = |o: &Opnd| {
        if let Opnd::Label { name, off } | Opnd::Offset { name, off } = o {
            v.push(DataLabel { name: name.clone(), off: *off });
        }
    };
    match ins {
        Ins::BinArith { dst, src, .. } | Ins::Logic { dst, src, .. } | Ins::Mov { dst, src, .. } | Ins::Lea { dst, src } => {
            add(dst);
            add(src);
        }
        Ins::Xchg { a, b, .. } => {
            add(a);
            add(b);
        }
        Ins::Not { dst, .. } | Ins::Shift { dst, .. } | Ins::UnArith { dst, .. } | Ins::Pop { dst } => add(dst),
        Ins::Push { src } => add(src),
        _ => {}
    }
    let mut seen: Vec<String> = Vec::new();
    v.retain(|l| if seen.contains(&l.name) { false } else { seen.push(l.name.clone()); true });
    v
}

/// Assemble one instruction with the real preprocessor.
/// Ok((assembled, idx, source)) or Err((diagnostic, source))
pub fn assemble_ins(asm: &Asm, ins: &Ins, sp: &Spelling) -> Result<(Assembled, usize, String), (String, String)> {
    let (src, idx) = program_for(ins, &labels_of(ins), sp);
    match asm.assemble(&src) {
        Ok(a) => {
            if a.out.code.len() <= idx {
                return Err((format!("assembler emitted {} instructions, expected index {}", a.out.code.len(), idx), src));
            }
            Ok((a, idx, src))
        }
        Err(e) => Err((e, src)),
    }
}

/// A random register file; segments and pointers biased towards boundaries
pub fn random_regs(rng: &mut Rng) -> Regs {
    Regs {
        ax: rng.w16(),
        bx: rng.w16(),
        cx: rng.w16(),
        dx: rng.w16(),
        sp: rng.w16(),
        bp: rng.w16(),
        si: rng.w16(),
        di: rng.w16(),
        ip: rng.u16(),
        cs: rng.w16(),
        ds: rng.w16(),
        ss: rng.w16(),
        es: rng.w16(),
    }
}

/// Execute one abstract instruction from an established state and return [reset, step] events.
/// The line executed is whatever the real assembler emitted for the rendered source.
pub fn run_one(
    asm: &Asm,
    mach: &mut Mach,
    ins: &Ins,
    sp: &Spelling,
    regs: &Regs,
    flags: u16,
    seed: i64,
    memset: &[(usize, u8)],
    stack: &[usize],
) -> Vec<Value> {
    let mut evs = Vec::new();
    match assemble_ins(asm, ins, sp) {
        Err((e, src)) => {
            evs.push(json!({"ev":"asmfail","ast":ins.to_json(),"src":src,"err":e}));
        }
        Ok((mut a, idx, src)) => {
            evs.push(mach.reset(regs, flags, seed, memset, stack));
            a.ictx.call_stack = stack.to_vec();
            let line = a.out.code[idx].clone();
            let o = mach.step(idx, &mut a.ictx, &line);
            let mut ev = o.to_json();
            ev["ev"] = json!("step");
            ev["ast"] = ins.to_json();
            ev["idx"] = json!(idx);
            ev["line"] = json!(line);
            ev["src"] = json!(src);
            evs.push(ev);
        }
    }
    evs
}
