//! Common generator infrastructure: seeded RNG, boundary lattices, sharded ndjson writer,
//! single-instruction programs assembled with the real Preprocessor.
use crate::ast::*;
use crate::exec::*;
use serde_json::{json, Value};
use std::fs::File;
use std::io::{BufWriter, Write};

pub struct Rng(pub u64);
impl Rng {
    pub fn new(seed: u64) -> Rng {
        Rng(seed.wrapping_mul(0x9E3779B97F4A7C15) ^ 0xD1B54A32D192ED03)
    }
    pub fn next(&mut self) -> u64 {
        // xorshift64*
        let mut x = self.0;
        if x == 0 {
            x = 0x2545F4914F6CDD1D;
        }
        x ^= x >> 12;
        x ^= x << 25;
        x ^= x >> 27;
        self.0 = x;
        x.wrapping_mul(0x2545F4914F6CDD1D)
    }
    pub fn below(&mut self, n: u64) -> u64 {
        (self.next() >> 11) % n
    }
    pub fn u16(&mut self) -> u16 {
        (self.next() >> 20) as u16
    }
    pub fn u8(&mut self) -> u8 {
        (self.next() >> 24) as u8
    }
    pub fn pick<'a, T>(&mut self, xs: &'a [T]) -> &'a T {
        &xs[self.below(xs.len() as u64) as usize]
    }
    pub fn chance(&mut self, num: u64, den: u64) -> bool {
        self.below(den) < num
    }
    /// a 16-bit value biased towards boundaries
    pub fn w16(&mut self) -> u16 {
        if self.chance(1, 2) {
            *self.pick(&lattice16())
        } else {
            self.u16()
        }
    }
}

pub fn lattice16() -> Vec<u16> {
    let mut v: Vec<u32> = vec![0, 1, 2, 3, 9, 10, 15, 16, 17, 0x7F, 0x80, 0x81, 0xFE, 0xFF, 0x100, 0x101];
    for k in 2..16 {
        let p = 1u32 << k;
        v.push(p - 1);
        v.push(p);
        v.push(p + 1);
        v.push(65536 - p);
        v.push(65536 - p - 1);
        v.push(65536 - p + 1);
    }
    for x in [0x7FFE, 0x7FFF, 0x8000, 0x8001, 0xFFFE, 0xFFFF, 0x0FFF, 0xF000, 0xFF00, 0x00F0, 0xFFF0, 0x5555, 0xAAAA, 0x1234, 0x9999, 0x0909] {
        v.push(x);
    }
    let mut w: Vec<u16> = v.into_iter().filter(|x| *x < 65536).map(|x| x as u16).collect();
    w.sort();
    w.dedup();
    w
}

pub fn lattice8() -> Vec<u8> {
    vec![0, 1, 2, 7, 8, 9, 10, 15, 16, 17, 0x3F, 0x40, 0x41, 0x7E, 0x7F, 0x80, 0x81, 0x99, 0x9A, 0xA0, 0xF0, 0xFE, 0xFF]
}

/// Sharded ndjson writer: independent units go to shards round-robin
pub struct Shards {
    files: Vec<BufWriter<File>>,
    next: usize,
    pub events: u64,
    pub units: u64,
    pub samples: Vec<Value>,
    pub counters: std::collections::BTreeMap<String, u64>,
}

impl Shards {
    pub fn new(dir: &str, n: usize) -> Shards {
        std::fs::create_dir_all(dir).unwrap();
        let files = (0..n)
            .map(|i| BufWriter::new(File::create(format!("{}/trace_{:02}.ndjson", dir, i)).unwrap()))
            .collect();
        Shards { files, next: 0, events: 0, units: 0, samples: Vec::new(), counters: Default::default() }
    }
    /// write one unit (a self-contained run of events) to the next shard
    pub fn unit(&mut self, evs: &[Value]) {
        for e in evs {
            if let Some(k) = e.get("ev").and_then(|x| x.as_str()) {
                if k == "asmfail" || k == "nonterminating" {
                    *self.counters.entry(format!("!{}", k)).or_insert(0) += 1;
                }
            }
        }
        let f = &mut self.files[self.next];
        for e in evs {
            serde_json::to_writer(&mut *f, e).unwrap();
            f.write_all(b"\n").unwrap();
        }
        self.events += evs.len() as u64;
        self.units += 1;
        if self.samples.len() < 3 || (self.units % 997 == 0 && self.samples.len() < 8) {
            if let Some(e) = evs.last() {
                self.samples.push(trim_sample(e));
            }
        }
        self.next = (self.next + 1) % self.files.len();
    }
    pub fn count(&mut self, key: &str, n: u64) {
        *self.counters.entry(key.to_string()).or_insert(0) += n;
    }
    pub fn finish(mut self, dir: &str, extra: Value) {
        for f in self.files.iter_mut() {
            f.flush().unwrap();
        }
        let meta = json!({"events": self.events, "units": self.units, "samples": self.samples,
                          "counters": self.counters, "extra": extra});
        std::fs::write(format!("{}/gen_meta.json", dir), serde_json::to_string_pretty(&meta).unwrap()).unwrap();
    }
}

/// long arrays are cut so that evidence samples stay readable
fn trim_sample(e: &Value) -> Value {
    match e {
        Value::Object(m) => {
            let mut o = serde_json::Map::new();
            for (k, v) in m {
                o.insert(k.clone(), trim_sample(v));
            }
            Value::Object(o)
        }
        Value::Array(a) if a.len() > 8 => {
            let mut v: Vec<Value> = a.iter().take(8).map(trim_sample).collect();
            v.push(json!(format!("... {} items", a.len())));
            Value::Array(v)
        }
        Value::Array(a) => Value::Array(a.iter().map(trim_sample).collect()),
        _ => e.clone(),
    }
}

/// A data label wanted at a given offset of segment 0's data area
#[derive(Clone, Debug)]
pub struct DataLabel {
    pub name: String,
    pub off: u32,
}

/// Source of a program consisting of the data labels, `start:`, `pre` filler instructions,
/// the instruction under test, and trailing code labels; returns (source, index of the instruction)
pub fn program_for(ins: &Ins, labels: &[DataLabel], sp: &Spelling) -> (String, usize) {
    let mut src = String::new();
    let mut ls: Vec<DataLabel> = labels.to_vec();
    ls.sort_by_key(|l| l.off);
    let mut at: u32 = 0;
    for l in &ls {
        if l.off > at {
            src.push_str(&format!("db [{}]\n", l.off - at));
            at = l.off;
        }
        // one byte so that consecutive labels stay distinct
        src.push_str(&format!("{}: db 0\n", l.name));
        at += 1;
    }
    let mut idx = 0usize;
    match ins {
        Ins::Jcc { label, target, .. } => {
            // target index `target`: put the label after `target` instructions
            src.push_str("start:\n");
            let mut n = 0usize;
            // the instruction under test sits at index max(target,1)-? : keep it simple:
            // layout: [t fillers] label: [1 filler] ins   (target = t, ins index = t + 1)
            for _ in 0..*target {
                src.push_str("clc\n");
                n += 1;
            }
            src.push_str(&format!("{}:\n", label));
            src.push_str("clc\n");
            n += 1;
            idx = n;
            src.push_str(&ins.to_src(sp));
            src.push('\n');
        }
        Ins::Call { name, target } => {
            // `target` filler instructions, then the procedure (its first instruction has index `target`)
            for _ in 0..*target {
                src.push_str("clc\n");
            }
            src.push_str(&format!("def {} {{\nclc\n}}\n", name));
            src.push_str("start:\n");
            idx = *target + 2;
            src.push_str(&ins.to_src(sp));
            src.push('\n');
        }
        _ => {
            src.push_str("start:\n");
            src.push_str(&ins.to_src(sp));
            src.push('\n');
        }
    }
    (src, idx)
}

pub fn labels_of(ins: &Ins) -> Vec<DataLabel> {
    let mut v = Vec::new();
    let mut add = |o: &Opnd| {
        if let Opnd::Label { name, off } | Opnd::Offset { name, off } = o {
            v.push(DataLabel { name: name.clone(), off: *off });
        }
    };
    match ins {
        Ins::BinArith { dst, src, .. } | Ins::Logic { dst, src, .. } | Ins::Mov { dst, src, .. } | Ins::Lea { dst, src } => {
            add(dst);
            add(src);
        }
        Ins::Xchg { a, b, .. } => {
            add(a);
            add(b);
        }
        Ins::Not { dst, .. } | Ins::Shift { dst, .. } | Ins::UnArith { dst, .. } | Ins::Pop { dst } => add(dst),
        Ins::Push { src } => add(src),
        _ => {}
    }
    let mut seen: Vec<String> = Vec::new();
    v.retain(|l| if seen.contains(&l.name) { false } else { seen.push(l.name.clone()); true });
    v
}

/// Assemble one instruction with the real preprocessor.
/// Ok((assembled, idx, source)) or Err((diagnostic, source))
pub fn assemble_ins(asm: &Asm, ins: &Ins, sp: &Spelling) -> Result<(Assembled, usize, String), (String, String)> {
    let (src, idx) = program_for(ins, &labels_of(ins), sp);
    match asm.assemble(&src) {
        Ok(a) => {
            if a.out.code.len() <= idx {
                return Err((format!("assembler emitted {} instructions, expected index {}", a.out.code.len(), idx), src));
            }
            Ok((a, idx, src))
        }
        Err(e) => Err((e, src)),
    }
}

/// A random register file; segments and pointers biased towards boundaries
pub fn random_regs(rng: &mut Rng) -> Regs {
    Regs {
        ax: rng.w16(),
        bx: rng.w16(),
        cx: rng.w16(),
        dx: rng.w16(),
        sp: rng.w16(),
        bp: rng.w16(),
        si: rng.w16(),
        di: rng.w16(),
        ip: rng.u16(),
        cs: rng.w16(),
        ds: rng.w16(),
        ss: rng.w16(),
        es: rng.w16(),
    }
}

/// Execute one abstract instruction from an established state and return [reset, step] events.
/// The line executed is whatever the real assembler emitted for the rendered source.
/// Registers changed so that the first memory operand (bracketed or data label) of `ins` lies on the end of the
/// 1 MB space: its first byte at FFFFFh, FFFFEh, 00000h (segment * 16 + offset = 100000h) or 00001h.  A base or
/// index register is nudged to give the offset the right low nibble; the operand's segment register (override,
/// SS for BP-based forms, DS otherwise) is then set to match.  Left alone when that is impossible.
pub fn edge_place(ins: &Ins, regs: &Regs, k: u64) -> Regs {
    let opnds: Vec<&Opnd> = match ins {
        Ins::BinArith { dst, src, .. } | Ins::Logic { dst, src, .. } | Ins::Mov { dst, src, .. } | Ins::Lea { dst, src } => vec![dst, src],
        Ins::Xchg { a, b, .. } => vec![a, b],
        Ins::Not { dst, .. } | Ins::Shift { dst, .. } | Ins::UnArith { dst, .. } | Ins::Pop { dst } => vec![dst],
        Ins::Push { src } => vec![src],
        _ => vec![],
    };
    let mut r = *regs;
    // (besides the end of the 1 MB space: the end of a 64 KiB block of the linear address space in the middle of the
    // memory, and offset FFFFh of whatever segment the operand has -- a word there goes on with the next linear byte)
    let mode = k % 8;
    let target: u32 = [0xFFFFFu32, 0xFFFFE, 0x100000, 0x100001, 0x2FFFF, 0x0FFFF, 0x9FFFF, 0][mode as usize];
    // implicit operands: the elements of a string instruction (DS:SI, ES:DI) and the table byte of XLAT (DS:BX+AL) are
    // placed the same way (seeded change C09-n: the second byte of a word element read at FFFFFh without the wrap)
    if matches!(ins, Ins::Str { .. } | Ins::Xlat) {
        let t: u32 = if mode == 7 { 0xFFFFD } else { target };
        let mut ptrs: Vec<(&str, &str)> = Vec::new();
        if matches!(ins, Ins::Xlat) {
            ptrs.push(("ds", "bx"));
        } else {
            match (k / 8) % 3 { 0 => ptrs.push(("ds", "si")), 1 => ptrs.push(("es", "di")), _ => { ptrs.push(("ds", "si")); ptrs.push(("es", "di")); } }
        }
        for (segreg, ptr) in ptrs {
            let extra: u32 = if matches!(ins, Ins::Xlat) { (r.get("ax") & 0xFF) as u32 } else { 0 };
            let off = (r.get(ptr) as u32 + extra) % 65536;
            let delta = (t % 16 + 16 - off % 16) % 16;
            r.set(ptr, r.get(ptr).wrapping_add(delta as u16));
            let off = (off + delta) % 65536;
            if t >= off && (t - off) % 16 == 0 && (t - off) / 16 <= 0xFFFF {
                r.set(segreg, ((t - off) / 16) as u16);
            }
        }
        return r;
    }
    for o in opnds {
        if mode == 7 {
            if let Opnd::Mem { base, index, disp, .. } = o {
                let mut off = (*disp as i64).rem_euclid(65536) as u32;
                if !base.is_empty() { off = (off + r.get(base) as u32) % 65536; }
                if !index.is_empty() { off = (off + r.get(index) as u32) % 65536; }
                let tweak: &str = if !index.is_empty() { index } else { base };
                if !tweak.is_empty() {
                    let delta = (0xFFFFu32 + 65536 - off) % 65536;
                    r.set(tweak, r.get(tweak).wrapping_add(delta as u16));
                }
                break;
            }
            if matches!(o, Opnd::Label { .. }) { break; }
            continue;
        }
        let (segreg, off): (&str, u32) = match o {
            Opnd::Mem { seg, base, index, disp, .. } => {
                let sr: &str = if !seg.is_empty() { seg } else if *base == "bp" { "ss" } else { "ds" };
                let mut off = (*disp as i64).rem_euclid(65536) as u32;
                if !base.is_empty() { off = (off + r.get(base) as u32) % 65536; }
                if !index.is_empty() { off = (off + r.get(index) as u32) % 65536; }
                // nudge a register of the operand so that the offset gets the low nibble of the target
                let want = target % 16;
                let delta = (want + 16 - off % 16) % 16;
                let tweak: &str = if !index.is_empty() { index } else { base };
                if !tweak.is_empty() && delta != 0 {
                    r.set(tweak, r.get(tweak).wrapping_add(delta as u16));
                    off = (off + delta) % 65536;
                }
                (sr, off)
            }
            Opnd::Label { off, .. } => ("ds", *off),
            _ => continue,
        };
        // a label's offset cannot be nudged: take the target its low nibble allows
        let target = if matches!(o, Opnd::Label { .. }) { match off % 16 { 15 => 0xFFFFF, 14 => 0xFFFFE, 0 => 0x100000, 1 => 0x100001, _ => target } } else { target };
        if target >= off && (target - off) % 16 == 0 && (target - off) / 16 <= 0xFFFF {
            r.set(segreg, ((target - off) / 16) as u16);
        }
        break;
    }
    r
}


/// PUSH / POP of a memory operand (bracketed or data label): SS:SP moved so that the stack word (the new top for
/// PUSH, the current top for POP) lies -2 .. 2 bytes from the operand's word: the two words then overlap or touch.
pub fn stack_place(ins: &Ins, regs: &Regs, k: u64) -> Regs {
    let (o, is_push) = match ins {
        Ins::Push { src } => (src, true),
        Ins::Pop { dst } => (dst, false),
        _ => return *regs,
    };
    let mut r = *regs;
    let (segreg, off): (&str, u32) = match o {
        Opnd::Mem { seg, base, index, disp, .. } => {
            let sr: &str = if !seg.is_empty() { seg } else if *base == "bp" { "ss" } else { "ds" };
            let mut off = (*disp as i64).rem_euclid(65536) as u32;
            if !base.is_empty() { off = (off + r.get(base) as u32) % 65536; }
            if !index.is_empty() { off = (off + r.get(index) as u32) % 65536; }
            (sr, off)
        }
        Opnd::Label { off, .. } => ("ds", *off),
        _ => return r,
    };
    if segreg == "ss" {
        return r; // moving SS would move the operand as well
    }
    let mb: i64 = 1 << 20;
    let a = (r.get(segreg) as i64 * 16 + off as i64) % mb;
    let d = [-1i64, 0, 1, -2, 2][(k % 5) as usize];
    let t = (a + d).rem_euclid(mb) as u32;
    let mut ss = t / 16;
    if ss >= 0x100 && k % 2 == 0 {
        ss -= 0x100;
    }
    let top = (t - ss * 16) as u16;
    r.set("ss", ss as u16);
    r.set("sp", if is_push { top.wrapping_add(2) } else { top });
    r
}

static RUNS: std::sync::atomic::AtomicU64 = std::sync::atomic::AtomicU64::new(0);
/// false while a generator lays its operands out itself (run_one then leaves the registers alone)
pub static PLACE: std::sync::atomic::AtomicBool = std::sync::atomic::AtomicBool::new(true);

pub fn run_one(
    asm: &Asm,
    mach: &mut Mach,
    ins: &Ins,
    sp: &Spelling,
    regs: &Regs,
    flags: u16,
    seed: i64,
    memset: &[(usize, u8)],
    stack: &[usize],
) -> Vec<Value> {
    let mut evs = Vec::new();
    // every fourth single-instruction case (every second one with a data-label operand, whose offset cannot be
    // nudged): the memory operand is moved onto the end of the 1 MB space (see edge_place)
    // (the decision is a hash of the call number: generators walk fixed-length lists, a plain period would always
    // pick the same list positions)
    let n = RUNS.fetch_add(1, std::sync::atomic::Ordering::Relaxed);
    let h = (n.wrapping_add(1).wrapping_mul(0x9E37_79B9_7F4A_7C15) >> 29) as u64;
    let has_label = format!("{:?}", ins).contains("Label {");
    let placed;
    let on = PLACE.load(std::sync::atomic::Ordering::Relaxed);
    let edge = on && (h % 4 == 3 || (has_label && h % 4 == 1));
    let regs = if edge { placed = edge_place(ins, regs, h / 4); &placed } else { regs };
    // two in five PUSH / POP of a memory operand: the stack word is laid over or next to the operand's word
    let stacked;
    let regs = if on && !edge && matches!(ins, Ins::Push { .. } | Ins::Pop { .. }) && (h / 4) % 5 < 4 { stacked = stack_place(ins, regs, h / 20); &stacked } else { regs };
    match assemble_ins(asm, ins, sp) {
        Err((e, src)) => {
            evs.push(json!({"ev":"asmfail","ast":ins.to_json(),"src":src,"err":e}));
        }
        Ok((mut a, idx, src)) => {
            evs.push(mach.reset(regs, flags, seed, memset, stack));
            a.ictx.call_stack = stack.to_vec();
            let line = a.out.code[idx].clone();
            let o = mach.step(idx, &mut a.ictx, &line);
            let mut ev = o.to_json();
            ev["ev"] = json!("step");
            ev["ast"] = ins.to_json();
            ev["idx"] = json!(idx);
            ev["line"] = json!(line);
            ev["src"] = json!(src);
            evs.push(ev);
        }
    }
    evs
}
