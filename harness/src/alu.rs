//! Batch sweeps of the ALU through the real interpreter (events alu8 / un8 / shift / muldiv /
//! adjust / jcc / loopcx of spec/TraceStep.tla).  Each event carries up to 256 observed results
//! of one operation; the specification evaluates all of them in one TLC step.
use crate::ast::*;
use crate::exec::*;
use crate::gen::*;
use serde_json::{json, Value};

const PAIRS8: [(&str, &str); 6] = [("al", "bl"), ("ch", "dl"), ("bh", "ah"), ("dl", "cl"), ("ah", "dh"), ("cl", "al")];
const PAIRS16: [(&str, &str); 6] = [("ax", "bx"), ("cx", "dx"), ("si", "di"), ("bp", "ax"), ("dx", "si"), ("bx", "cx")];

pub fn is_logic(op: &str) -> bool {
    matches!(op, "and" | "or" | "xor" | "test")
}

/// other registers / flags frame: everything except `dst` (and its parent) must be unchanged
fn frame_ok(before: &Regs, after: &Regs, dst: &str) -> bool {
    let mut b = *before;
    let mut a = *after;
    b.set(dst, 0);
    a.set(dst, 0);
    a == b
}

/// two-operand op: for each b in bs execute `op dst, src` with dst=a, src=b, CF=cin, flags=fin
pub fn alu_event(asm: &Asm, mach: &mut Mach, op: &'static str, w: u8, a: u16, cin: u16, fin: u16, bs: &[u16], variant: usize) -> Value {
    let (d, s) = if w == 8 { PAIRS8[variant % 6] } else { PAIRS16[variant % 6] };
    let mk = |r: &'static str| if w == 8 { Opnd::Reg8(r) } else { Opnd::Reg16(r) };
    let ins = if is_logic(op) {
        Ins::Logic { op, w, dst: mk(d), src: mk(s) }
    } else {
        Ins::BinArith { op, w, dst: mk(d), src: mk(s) }
    };
    let sp = Spelling::default();
    let (mut asmd, idx, _src) = assemble_ins(asm, &ins, &sp).expect("register form must assemble");
    let line = asmd.out.code[idx].clone();
    let fin = (fin & !1) | cin;
    let mut base = Regs { ax: 0x1234, bx: 0x5678, cx: 0x9ABC, dx: 0xDEF0, sp: 0x100, bp: 0x200, si: 0x300, di: 0x400, ip: 0, cs: 0xFFFF, ds: 0x10, ss: 0x20, es: 0x30 };
    base.set(d, a);
    let mut res = Vec::with_capacity(bs.len());
    let mut fl = Vec::with_capacity(bs.len());
    let mut fb: Vec<usize> = Vec::new();
    for (k, b) in bs.iter().enumerate() {
        let mut r = base;
        r.set(s, *b);
        // when d and s overlap in one parent register both must survive: pairs never share a byte
        r.set(d, a);
        write_regs(&mut mach.vm, &r);
        let before = read_regs(&mach.vm);
        mach.vm.arch.flag = fin;
        let (out, _) = mach.step_fast(idx, &mut asmd.ictx, &line);
        let after = read_regs(&mach.vm);
        res.push(after.get(d));
        fl.push(mach.vm.arch.flag);
        if out != "NEXT" || !frame_ok(&before, &after, d) {
            fb.push(k + 1);
        }
    }
    if !mach.mem_same() {
        let _ = mach.diff();
        fb = (1..=bs.len()).collect();
    }
    json!({"ev":"alu8","op":op,"w":w,"a":a,"cin":cin,"fin":fin,"bs":bs,"res":res,"fl":fl,"fb":fb,"line":line})
}

/// one-operand op (inc/dec/neg/not) over the values `vals`
pub fn un_event(asm: &Asm, mach: &mut Mach, op: &'static str, w: u8, fin: u16, vals: &[u16], variant: usize) -> Value {
    let d = if w == 8 { PAIRS8[variant % 6].0 } else { PAIRS16[variant % 6].0 };
    let dst = if w == 8 { Opnd::Reg8(d) } else { Opnd::Reg16(d) };
    let ins = if op == "not" { Ins::Not { w, dst } } else { Ins::UnArith { op, w, dst } };
    let sp = Spelling::default();
    let (mut asmd, idx, _src) = assemble_ins(asm, &ins, &sp).expect("register form must assemble");
    let line = asmd.out.code[idx].clone();
    let base = Regs { ax: 0x1234, bx: 0x5678, cx: 0x9ABC, dx: 0xDEF0, sp: 0x100, bp: 0x200, si: 0x300, di: 0x400, ip: 0, cs: 0xFFFF, ds: 0x10, ss: 0x20, es: 0x30 };
    let mut res = Vec::new();
    let mut fl = Vec::new();
    let mut fb: Vec<usize> = Vec::new();
    for (k, v) in vals.iter().enumerate() {
        let mut r = base;
        r.set(d, *v);
        write_regs(&mut mach.vm, &r);
        let before = read_regs(&mach.vm);
        mach.vm.arch.flag = fin;
        let (out, _) = mach.step_fast(idx, &mut asmd.ictx, &line);
        let after = read_regs(&mach.vm);
        res.push(after.get(d));
        fl.push(mach.vm.arch.flag);
        if out != "NEXT" || !frame_ok(&before, &after, d) {
            fb.push(k + 1);
        }
    }
    if !mach.mem_same() {
        let _ = mach.diff();
        fb = (1..=vals.len()).collect();
    }
    json!({"ev":"un8","op":op,"w":w,"fin":fin,"cin":fin & 1,"as":vals,"res":res,"fl":fl,"fb":fb,"line":line})
}

/// cache of assembled `mn dst, n` lines for n = 0..255 (the assembler is run once per line)
#[derive(Default)]
pub struct ShiftLines {
    map: std::collections::HashMap<(String, u8, String), Vec<String>>,
}

impl ShiftLines {
    fn get(&mut self, asm: &Asm, op: &'static str, mn: &'static str, w: u8, d: &'static str) -> &Vec<String> {
        let key = (mn.to_string(), w, d.to_string());
        if !self.map.contains_key(&key) {
            let sp = Spelling::default();
            let dst = if w == 8 { Opnd::Reg8(d) } else { Opnd::Reg16(d) };
            let mut v = Vec::new();
            for n in 0..256u32 {
                let ins = Ins::Shift { op, mn, w, dst: dst.clone(), cnt: Cnt::Imm(n) };
                let (a, idx, _) = assemble_ins(asm, &ins, &sp).expect("imm form must assemble");
                v.push(a.out.code[idx].clone());
            }
            self.map.insert(key.clone(), v);
        }
        self.map.get(&key).unwrap()
    }
}

/// shift/rotate of value v by each count in ns (immediate counts assembled from source, or CL)
pub fn shift_event(asm: &Asm, mach: &mut Mach, cache: &mut ShiftLines, op: &'static str, mn: &'static str, w: u8, v: u16, fin: u16, ns: &[u16], use_cl: bool, variant: usize) -> Value {
    // destination must not be CL/CX when the count is in CL
    let d8 = ["al", "bh", "dl", "ah", "bl", "dh"][variant % 6];
    let d16 = ["ax", "bx", "dx", "si", "di", "bp"][variant % 6];
    let d = if w == 8 { d8 } else { d16 };
    let dst = if w == 8 { Opnd::Reg8(d) } else { Opnd::Reg16(d) };
    let sp = Spelling::default();
    let base = Regs { ax: 0x1234, bx: 0x5678, cx: 0x9A00, dx: 0xDEF0, sp: 0x100, bp: 0x200, si: 0x300, di: 0x400, ip: 0, cs: 0xFFFF, ds: 0x10, ss: 0x20, es: 0x30 };
    let mut res = Vec::new();
    let mut fl = Vec::new();
    let mut panic = Vec::new();
    let mut fb: Vec<usize> = Vec::new();
    let mut ictx = emulator_8086_lib::InterpreterContext::default();
    let cl_line: String = if use_cl {
        let ins = Ins::Shift { op, mn, w, dst: dst.clone(), cnt: Cnt::Cl };
        let (a, idx, _) = assemble_ins(asm, &ins, &sp).expect("cl form must assemble");
        a.out.code[idx].clone()
    } else {
        String::new()
    };
    let lines: Vec<String> = if use_cl { Vec::new() } else { cache.get(asm, op, mn, w, d).clone() };
    let mut line0 = String::new();
    for (k, n) in ns.iter().enumerate() {
        let mut r = base;
        r.set(d, v);
        if use_cl {
            r.set("cl", *n);
        }
        let line: &str = if use_cl { &cl_line } else { &lines[*n as usize] };
        // the assembler always writes `sal`; the interpreter also takes the spelling `shl` when given a line directly
        let respelt: String;
        let line: &str = if op == "sal" && variant % 4 == 3 && line.starts_with("sal ") { respelt = format!("shl {}", &line[4..]); &respelt } else { line };
        write_regs(&mut mach.vm, &r);
        let before = read_regs(&mach.vm);
        mach.vm.arch.flag = fin;
        let out = mach.step_fast(0, &mut ictx, line).0;
        if k == 0 {
            line0 = line.to_string();
        }
        let after = read_regs(&mach.vm);
        res.push(after.get(d));
        fl.push(mach.vm.arch.flag);
        panic.push(if out == "PANIC" { 1 } else { 0 });
        if (out != "NEXT" && out != "PANIC") || !frame_ok(&before, &after, d) {
            fb.push(k + 1);
        }
    }
    if !mach.mem_same() {
        let _ = mach.diff();
        fb = (1..=ns.len()).collect();
    }
    json!({"ev":"shift","op":op,"mn":mn,"w":w,"v":v,"cin":fin & 1,"fin":fin,"ns":ns,"res":res,"fl":fl,
           "panic":panic,"fb":fb,"cl":use_cl,"line":line0})
}

/// mul/imul/div/idiv with AX, DX fixed and the operand ranging over vs (operand in a register)
pub fn muldiv_event(asm: &Asm, mach: &mut Mach, op: &'static str, w: u8, ax: u16, dx: u16, fin: u16, vs: &[u16], variant: usize) -> Value {
    let s8 = ["bl", "ch", "bh", "cl", "bl"][variant % 5];
    let s16 = ["bx", "cx", "si", "di", "bp"][variant % 5];
    let s = if w == 8 { s8 } else { s16 };
    let opnd = if w == 8 { Opnd::Reg8(s) } else { Opnd::Reg16(s) };
    let ins = Ins::UnArith { op, w, dst: opnd };
    let sp = Spelling::default();
    let (mut asmd, idx, _) = assemble_ins(asm, &ins, &sp).expect("register form must assemble");
    let line = asmd.out.code[idx].clone();
    let base = Regs { ax, bx: 0x5678, cx: 0x9ABC, dx, sp: 0x100, bp: 0x200, si: 0x300, di: 0x400, ip: 0, cs: 0xFFFF, ds: 0x10, ss: 0x20, es: 0x30 };
    let (mut oax, mut odx, mut fl, mut outv) = (Vec::new(), Vec::new(), Vec::new(), Vec::new());
    let mut fb: Vec<usize> = Vec::new();
    for (k, v) in vs.iter().enumerate() {
        let mut r = base;
        r.set(s, *v);
        write_regs(&mut mach.vm, &r);
        let before = read_regs(&mach.vm);
        mach.vm.arch.flag = fin;
        let (out, arg) = mach.step_fast(idx, &mut asmd.ictx, &line);
        let after = read_regs(&mach.vm);
        oax.push(after.ax);
        odx.push(after.dx);
        fl.push(mach.vm.arch.flag);
        outv.push(match (out, arg) {
            ("NEXT", _) => 0,
            ("INT", 0) => 1,
            ("PANIC", _) => 2,
            _ => 3,
        });
        // frame: everything except AX and DX (the operand register itself must be unchanged)
        let mut b2 = before;
        let mut a2 = after;
        b2.ax = 0;
        a2.ax = 0;
        b2.dx = 0;
        a2.dx = 0;
        if a2 != b2 {
            fb.push(k + 1);
        }
    }
    if !mach.mem_same() {
        let _ = mach.diff();
        fb = (1..=vs.len()).collect();
    }
    json!({"ev":"muldiv","op":op,"w":w,"ax":ax,"dx":dx,"fin":fin,"vs":vs,"oax":oax,"odx":odx,"fl":fl,"out":outv,"fb":fb,"line":line})
}

/// adjust / cbw / cwd over AX values
pub fn adjust_event(asm: &Asm, mach: &mut Mach, op: &'static str, fin: u16, dx: u16, axs: &[u16]) -> Value {
    let ins = Ins::Adjust { op };
    let sp = Spelling::default();
    let (mut asmd, idx, _) = assemble_ins(asm, &ins, &sp).expect("adjust must assemble");
    let line = asmd.out.code[idx].clone();
    let base = Regs { ax: 0, bx: 0x5678, cx: 0x9ABC, dx, sp: 0x100, bp: 0x200, si: 0x300, di: 0x400, ip: 0, cs: 0xFFFF, ds: 0x10, ss: 0x20, es: 0x30 };
    let (mut oax, mut odx, mut fl) = (Vec::new(), Vec::new(), Vec::new());
    let mut fb: Vec<usize> = Vec::new();
    for (k, ax) in axs.iter().enumerate() {
        let mut r = base;
        r.ax = *ax;
        write_regs(&mut mach.vm, &r);
        let before = read_regs(&mach.vm);
        mach.vm.arch.flag = fin;
        let (out, _) = mach.step_fast(idx, &mut asmd.ictx, &line);
        let after = read_regs(&mach.vm);
        oax.push(after.ax);
        odx.push(after.dx);
        fl.push(mach.vm.arch.flag);
        let mut b2 = before;
        let mut a2 = after;
        b2.ax = 0;
        a2.ax = 0;
        b2.dx = 0;
        a2.dx = 0;
        if out != "NEXT" || a2 != b2 {
            fb.push(k + 1);
        }
    }
    if !mach.mem_same() {
        let _ = mach.diff();
        fb = (1..=axs.len()).collect();
    }
    json!({"ev":"adjust","op":op,"fin":fin,"cf":fin & 1,"af":(fin >> 4) & 1,"dx":dx,"axs":axs,"oax":oax,"odx":odx,"fl":fl,"fb":fb,"line":line})
}

/// conditional jump `mn` (source spelling) over the flag words fs, CX fixed
pub fn jcc_event(asm: &Asm, mach: &mut Mach, mn: &'static str, upper: bool, cx: u16, fs: &[u16], target: usize) -> Value {
    let ins = Ins::Jcc { mn, label: "vtgt".to_string(), target };
    let sp = Spelling { case: if upper { Case::Upper } else { Case::Lower }, ..Default::default() };
    match assemble_ins(asm, &ins, &sp) {
        Err((e, src)) => json!({"ev":"asmfail","ast":ins.to_json(),"src":src,"err":e}),
        Ok((mut asmd, idx, _)) => {
            let line = asmd.out.code[idx].clone();
            let base = Regs { ax: 0x1234, bx: 0x5678, cx, dx: 0xDEF0, sp: 0x100, bp: 0x200, si: 0x300, di: 0x400, ip: 0, cs: 0xFFFF, ds: 0x10, ss: 0x20, es: 0x30 };
            let is_loop = mn.starts_with("loop");
            let (mut taken, mut same) = (Vec::new(), Vec::new());
            for f in fs {
                write_regs(&mut mach.vm, &base);
                mach.vm.arch.flag = *f;
                let (out, arg) = mach.step_fast(idx, &mut asmd.ictx, &line);
                let after = read_regs(&mach.vm);
                taken.push(match (out, arg) {
                    ("NEXT", _) => 0,
                    ("JMP", t) if t as usize == target => 1,
                    _ => 2,
                });
                let mut exp = base;
                if is_loop {
                    exp.cx = cx.wrapping_sub(1);
                }
                same.push(if after == exp && mach.vm.arch.flag == *f && asmd.ictx.call_stack.is_empty() { 1 } else { 0 });
            }
            if !mach.mem_same() {
                let _ = mach.diff();
                same = vec![0; fs.len()];
            }
            json!({"ev":"jcc","mn":mn,"upper":upper,"cx":cx,"fs":fs,"taken":taken,"same":same,"target":target,"line":line})
        }
    }
}

/// CX-dependent instruction over the CX values cxs with a fixed flag word
pub fn loopcx_event(asm: &Asm, mach: &mut Mach, mn: &'static str, upper: bool, f: u16, cxs: &[u16], target: usize) -> Value {
    let ins = Ins::Jcc { mn, label: "vtgt".to_string(), target };
    let sp = Spelling { case: if upper { Case::Upper } else { Case::Lower }, ..Default::default() };
    match assemble_ins(asm, &ins, &sp) {
        Err((e, src)) => json!({"ev":"asmfail","ast":ins.to_json(),"src":src,"err":e}),
        Ok((mut asmd, idx, _)) => {
            let line = asmd.out.code[idx].clone();
            let is_loop = mn.starts_with("loop");
            let (mut taken, mut same) = (Vec::new(), Vec::new());
            for cx in cxs {
                let base = Regs { ax: 0x1234, bx: 0x5678, cx: *cx, dx: 0xDEF0, sp: 0x100, bp: 0x200, si: 0x300, di: 0x400, ip: 0, cs: 0xFFFF, ds: 0x10, ss: 0x20, es: 0x30 };
                write_regs(&mut mach.vm, &base);
                mach.vm.arch.flag = f;
                let (out, arg) = mach.step_fast(idx, &mut asmd.ictx, &line);
                let after = read_regs(&mach.vm);
                taken.push(match (out, arg) {
                    ("NEXT", _) => 0,
                    ("JMP", t) if t as usize == target => 1,
                    _ => 2,
                });
                let mut exp = base;
                if is_loop {
                    exp.cx = cx.wrapping_sub(1);
                }
                same.push(if after == exp && mach.vm.arch.flag == f { 1 } else { 0 });
            }
            if !mach.mem_same() {
                let _ = mach.diff();
                same = vec![0; cxs.len()];
            }
            json!({"ev":"loopcx","mn":mn,"upper":upper,"f":f,"zf":(f >> 6) & 1,"cxs":cxs,"taken":taken,"same":same,"line":line})
        }
    }
}
