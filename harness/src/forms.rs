//! Enumeration of the operand forms of syntax.md (every alternative of the assembler's
//! memory_addr production x segment override) and random instances of them.
use crate::ast::*;
use crate::gen::Rng;

pub const SEGS: [&str; 5] = ["", "es", "cs", "ss", "ds"];

#[derive(Clone, Copy, Debug, PartialEq)]
pub enum Shape {
    Direct,
    Indirect(&'static str),
    Based(&'static str),
    Indexed(&'static str),
    BasedIndexed(&'static str, &'static str, bool),
}

pub fn all_shapes() -> Vec<Shape> {
    let mut v = vec![Shape::Direct];
    for r in ["bx", "bp", "si", "di"] {
        v.push(Shape::Indirect(r));
    }
    for b in ["bx", "bp"] {
        v.push(Shape::Based(b));
    }
    for i in ["si", "di"] {
        v.push(Shape::Indexed(i));
    }
    for b in ["bx", "bp"] {
        for i in ["si", "di"] {
            v.push(Shape::BasedIndexed(b, i, false));
            v.push(Shape::BasedIndexed(b, i, true));
        }
    }
    v
}

pub fn shape_name(s: &Shape) -> String {
    match s {
        Shape::Direct => "direct".into(),
        Shape::Indirect(r) => format!("indirect-{}", r),
        Shape::Based(b) => format!("based-{}", b),
        Shape::Indexed(i) => format!("indexed-{}", i),
        Shape::BasedIndexed(b, i, d) => format!("basedindexed-{}-{}{}", b, i, if *d { "-disp" } else { "" }),
    }
}

/// displacement (signed word number as the source may write it: -32768..65535)
pub fn rand_disp(rng: &mut Rng) -> i32 {
    match rng.below(8) {
        0 => 0,
        1 => 1,
        2 => -1,
        3 => -2,
        4 => *rng.pick(&[32767, -32768, 65535, 65534, 32768, 2, 255, 256, -255, -256]),
        5 => rng.below(65536) as i32,
        6 => -(rng.below(32768) as i32) - 1,
        _ => rng.below(512) as i32 - 256,
    }
}

pub fn mem_of(shape: &Shape, seg: &'static str, rng: &mut Rng) -> Opnd {
    match shape {
        Shape::Direct => Opnd::Mem { seg, base: "", index: "", disp: rng.w16() as i32, has_disp: true },
        Shape::Indirect(r) => {
            if *r == "bx" || *r == "bp" {
                Opnd::Mem { seg, base: r, index: "", disp: 0, has_disp: false }
            } else {
                Opnd::Mem { seg, base: "", index: r, disp: 0, has_disp: false }
            }
        }
        Shape::Based(b) => Opnd::Mem { seg, base: b, index: "", disp: rand_disp(rng), has_disp: true },
        Shape::Indexed(i) => Opnd::Mem { seg, base: "", index: i, disp: rand_disp(rng), has_disp: true },
        Shape::BasedIndexed(b, i, d) => {
            if *d {
                Opnd::Mem { seg, base: b, index: i, disp: rand_disp(rng), has_disp: true }
            } else {
                Opnd::Mem { seg, base: b, index: i, disp: 0, has_disp: false }
            }
        }
    }
}

pub fn rand_mem(rng: &mut Rng) -> Opnd {
    let shapes = all_shapes();
    let s = *rng.pick(&shapes);
    let seg = *rng.pick(&SEGS);
    mem_of(&s, seg, rng)
}

pub fn rand_label(rng: &mut Rng) -> Opnd {
    let off = match rng.below(4) {
        0 => 0,
        1 => *rng.pick(&[0u32, 1, 14, 15, 3, 7, 30, 31]),
        2 => rng.below(60000) as u32,
        // (offsets ending in Fh / Eh / 0h / 1h can be placed on the end of the 1 MB space by choosing DS)
        _ => *rng.pick(&[1u32, 2, 15, 14, 31, 255, 256, 4095, 4096, 32767, 32768, 65000, 65535, 65534]),
    };
    Opnd::Label { name: format!("vl{}", off), off }
}

pub fn rand_reg8(rng: &mut Rng) -> Opnd {
    Opnd::Reg8(*rng.pick(&REG8))
}
pub fn rand_reg16(rng: &mut Rng) -> Opnd {
    Opnd::Reg16(*rng.pick(&REG16))
}
pub fn rand_reg(rng: &mut Rng, w: u8) -> Opnd {
    if w == 8 {
        rand_reg8(rng)
    } else {
        rand_reg16(rng)
    }
}

/// signed/unsigned immediate as the source may write it
pub fn rand_imm(rng: &mut Rng, w: u8, signed_ok: bool) -> Opnd {
    let v: i32 = if w == 8 {
        match rng.below(5) {
            0 => *rng.pick(&[0, 1, 127, 128, 255, 15, 16]),
            1 if signed_ok => -(rng.below(128) as i32) - 1,
            _ => rng.below(256) as i32,
        }
    } else {
        match rng.below(5) {
            0 => *rng.pick(&[0, 1, 255, 256, 32767, 32768, 65535, 4095]),
            1 if signed_ok => -(rng.below(32768) as i32) - 1,
            _ => rng.below(65536) as i32,
        }
    };
    Opnd::Imm(v)
}

/// The operand-kind alternatives of a two-operand arithmetic/logic/mov production
#[derive(Clone, Copy, Debug, PartialEq)]
pub enum Pair {
    RegReg,
    RegMem,
    RegLabel,
    MemReg,
    LabelReg,
    RegImm,
    MemImm,
    LabelImm,
}
pub const PAIRS: [Pair; 8] = [Pair::RegReg, Pair::RegMem, Pair::RegLabel, Pair::MemReg, Pair::LabelReg, Pair::RegImm, Pair::MemImm, Pair::LabelImm];

pub fn pair_operands(p: Pair, w: u8, signed_imm: bool, rng: &mut Rng, shape: Option<(Shape, &'static str)>) -> (Opnd, Opnd) {
    let mem = |rng: &mut Rng| match shape {
        Some((s, seg)) => mem_of(&s, seg, rng),
        None => rand_mem(rng),
    };
    match p {
        Pair::RegReg => (rand_reg(rng, w), rand_reg(rng, w)),
        Pair::RegMem => (rand_reg(rng, w), mem(rng)),
        Pair::RegLabel => (rand_reg(rng, w), rand_label(rng)),
        Pair::MemReg => (mem(rng), rand_reg(rng, w)),
        Pair::LabelReg => (rand_label(rng), rand_reg(rng, w)),
        Pair::RegImm => (rand_reg(rng, w), rand_imm(rng, w, signed_imm)),
        Pair::MemImm => (mem(rng), rand_imm(rng, w, signed_imm)),
        Pair::LabelImm => (rand_label(rng), rand_imm(rng, w, signed_imm)),
    }
}

/// the one-operand alternatives (unary arithmetic, not, shifts)
#[derive(Clone, Copy, Debug, PartialEq)]
pub enum One {
    Reg,
    Mem,
    Label,
}
pub const ONES: [One; 3] = [One::Reg, One::Mem, One::Label];

pub fn one_operand(o: One, w: u8, rng: &mut Rng, shape: Option<(Shape, &'static str)>) -> Opnd {
    match o {
        One::Reg => rand_reg(rng, w),
        One::Mem => match shape {
            Some((s, seg)) => mem_of(&s, seg, rng),
            None => rand_mem(rng),
        },
        One::Label => rand_label(rng),
    }
}
