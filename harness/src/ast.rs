//! Abstract instructions shared by the TLA+ specification (spec/Machine.tla, appendix A of
//! DESIGN.md), the trace events and the generators.  An `Ins` knows how to print itself as
//! JSON (for the specification) and as source text in the syntax of syntax.md (for the real
//! assembler).  It contains no semantics.
use serde_json::{json, Value};

#[derive(Clone, Debug, PartialEq)]
pub enum Opnd {
    Reg8(&'static str),
    Reg16(&'static str),
    Sreg(&'static str),
    /// value as written in the source (may be negative)
    Imm(i32),
    Mem { seg: &'static str, base: &'static str, index: &'static str, disp: i32, has_disp: bool },
    Label { name: String, off: u32 },
    /// the constant `OFFSET name`
    Offset { name: String, off: u32 },
}

#[derive(Clone, Copy, Debug, PartialEq)]
pub enum Case {
    Lower,
    Upper,
}

/// How numbers are written
#[derive(Clone, Copy, Debug, PartialEq)]
pub enum Radix {
    Dec,
    Hex,
    Bin,
}

#[derive(Clone, Copy, Debug)]
pub struct Spelling {
    pub case: Case,
    pub radix: Radix,
    /// separator after commas / between tokens
    pub wide: bool,
    /// tokens separated by line breaks (the grammar is insensitive to white space of any kind)
    pub nl: bool,
}

impl Default for Spelling {
    fn default() -> Self {
        Spelling { case: Case::Lower, radix: Radix::Dec, wide: false, nl: false }
    }
}

impl Spelling {
    pub fn kw(&self, s: &str) -> String {
        match self.case {
            Case::Lower => s.to_ascii_lowercase(),
            Case::Upper => s.to_ascii_uppercase(),
        }
    }
    pub fn num(&self, v: i32) -> String {
        if v < 0 {
            return format!("{}", v);
        }
        // the radix prefix follows the case of the keywords (0X1F / 0B101 are accepted spellings too)
        let up = self.case == Case::Upper;
        // wide spellings also pad constants with leading zeros (000123, 0x00001F): the value is the same
        if self.wide {
            return match self.radix {
                Radix::Dec => format!("{:07}", v),
                Radix::Hex => if up { format!("0X{:06X}", v) } else { format!("0x{:06x}", v) },
                Radix::Bin => format!("{}{:022b}", if up { "0B" } else { "0b" }, v),
            };
        }
        match self.radix {
            Radix::Dec => format!("{}", v),
            Radix::Hex => if up { format!("0X{:X}", v) } else { format!("0x{:x}", v) },
            Radix::Bin => format!("{}{:b}", if up { "0B" } else { "0b" }, v),
        }
    }
    pub fn comma(&self) -> &'static str {
        if self.nl {
            "\n,\n\n"
        } else if self.wide {
            " ,\t "
        } else {
            ","
        }
    }
    pub fn sp(&self) -> &'static str {
        if self.nl {
            "\n \t\n"
        } else if self.wide {
            "  \t"
        } else {
            " "
        }
    }
}

impl Opnd {
    pub fn mem(seg: &'static str, base: &'static str, index: &'static str, disp: i32) -> Opnd {
        Opnd::Mem { seg, base, index, disp, has_disp: true }
    }
    pub fn is_mem(&self) -> bool {
        matches!(self, Opnd::Mem { .. } | Opnd::Label { .. })
    }
    pub fn to_json(&self) -> Value {
        match self {
            Opnd::Reg8(r) => json!({"k":"reg8","r":r}),
            Opnd::Reg16(r) => json!({"k":"reg16","r":r}),
            Opnd::Sreg(r) => json!({"k":"sreg","r":r}),
            Opnd::Imm(v) => json!({"k":"imm","v": (*v as i64).rem_euclid(65536), "raw": v}),
            Opnd::Mem { seg, base, index, disp, .. } => {
                json!({"k":"mem","seg":seg,"base":base,"index":index,"disp":disp})
            }
            Opnd::Label { name, off } => json!({"k":"label","name":name,"off":off}),
            Opnd::Offset { name, off } => json!({"k":"offset","name":name,"v":off}),
        }
    }
    /// source text; `w` = operand width, written as the byte/word keyword for memory operands
    pub fn to_src(&self, w: u8, sp: &Spelling) -> String {
        match self {
            Opnd::Reg8(r) | Opnd::Reg16(r) | Opnd::Sreg(r) => sp.kw(r),
            Opnd::Imm(v) => sp.num(*v),
            Opnd::Mem { seg, base, index, disp, has_disp } => {
                let mut parts: Vec<String> = Vec::new();
                if !base.is_empty() {
                    parts.push(sp.kw(base));
                }
                if !index.is_empty() {
                    parts.push(sp.kw(index));
                }
                if *has_disp || parts.is_empty() {
                    parts.push(sp.num(*disp));
                }
                let inner = parts.join(sp.comma());
                let kw = sp.kw(if w == 8 { "byte" } else { "word" });
                if seg.is_empty() {
                    format!("{}{}[{}]", kw, sp.sp(), inner)
                } else {
                    format!("{}{}{}{}[{}]", kw, sp.sp(), sp.kw(seg), sp.sp(), inner)
                }
            }
            Opnd::Label { name, .. } => {
                format!("{}{}{}", sp.kw(if w == 8 { "byte" } else { "word" }), sp.sp(), name)
            }
            Opnd::Offset { name, .. } => format!("{}{}{}", sp.kw("offset"), sp.sp(), name),
        }
    }
}

#[derive(Clone, Debug, PartialEq)]
pub enum Cnt {
    Imm(u32),
    Cl,
    /// a register other than CL written as the count: never valid
    Reg(&'static str),
}

#[derive(Clone, Debug, PartialEq)]
pub enum Ins {
    BinArith { op: &'static str, w: u8, dst: Opnd, src: Opnd },
    Logic { op: &'static str, w: u8, dst: Opnd, src: Opnd },
    Not { w: u8, dst: Opnd },
    Shift { op: &'static str, mn: &'static str, w: u8, dst: Opnd, cnt: Cnt },
    UnArith { op: &'static str, w: u8, dst: Opnd },
    Adjust { op: &'static str },
    Mov { w: u8, dst: Opnd, src: Opnd },
    Xchg { w: u8, a: Opnd, b: Opnd },
    Push { src: Opnd },
    Pop { dst: Opnd },
    FlagsX { op: &'static str },
    Xlat,
    Lea { dst: Opnd, src: Opnd },
    Ctl { op: &'static str },
    /// mn = mnemonic as written in the source (synonyms allowed), label = code label name
    Jcc { mn: &'static str, label: String, target: usize },
    Call { name: String, target: usize },
    Ret,
    Int { n: u32 },
    Str { op: &'static str, w: u8, rep: &'static str, repmn: &'static str },
    Print { what: PrintWhat },
    /// source text that every assembler must refuse (unsupported mnemonic, ill-typed operands)
    Unsupported { text: String },
}

/// the argument of a print statement / prompt print command
#[derive(Clone, Debug, PartialEq)]
pub enum PrintWhat {
    Flags,
    Reg,
    /// print mem a -> b
    Range(u32, u32),
    /// print mem a : n
    Span(u32, u32),
    /// print mem : n
    DsSpan(u32),
    /// a print mem statement of the source whose constants may be written `offset <data label>`:
    /// form "range" (x -> y), "span" (x : y) or "dsspan" (: x)
    Sym { form: &'static str, x: Addr, y: Option<Addr> },
}

#[derive(Clone, Debug, PartialEq)]
pub enum Addr {
    Num(u32),
    Off(String),
}

impl Addr {
    fn put(&self, v: &mut Value, field: &str) {
        match self {
            Addr::Num(n) => v[field] = json!(n),
            Addr::Off(name) => {
                v[field] = json!(0);
                v[format!("{}sym", field)] = json!(name);
            }
        }
    }
    fn src(&self, sp: &Spelling) -> String {
        match self {
            Addr::Num(n) => sp.num(*n as i32),
            Addr::Off(name) => format!("{}{}{}", sp.kw("offset"), sp.sp(), name),
        }
    }
}

impl PrintWhat {
    pub fn to_json(&self) -> Value {
        match self {
            PrintWhat::Flags => json!({"k":"flags"}),
            PrintWhat::Reg => json!({"k":"reg"}),
            PrintWhat::Range(a, b) => json!({"k":"range","a":a,"b":b}),
            PrintWhat::Span(a, n) => json!({"k":"span","a":a,"n":n}),
            PrintWhat::DsSpan(n) => json!({"k":"dsspan","n":n}),
            PrintWhat::Sym { form, x, y } => {
                let mut v = json!({"k": form});
                let (fx, fy) = match *form { "range" => ("a", "b"), "span" => ("a", "n"), _ => ("n", "") };
                x.put(&mut v, fx);
                if let Some(y) = y { y.put(&mut v, fy); }
                v
            }
        }
    }
    pub fn to_src(&self, sp: &Spelling) -> String {
        let s = sp.sp();
        match self {
            PrintWhat::Flags => format!("{}{}{}", sp.kw("print"), s, sp.kw("flags")),
            PrintWhat::Reg => format!("{}{}{}", sp.kw("print"), s, sp.kw("reg")),
            PrintWhat::Range(a, b) => format!("{}{}{}{}{}{}->{}{}", sp.kw("print"), s, sp.kw("mem"), s, sp.num(*a as i32), s, s, sp.num(*b as i32)),
            PrintWhat::Span(a, n) => format!("{}{}{}{}{}{}:{}{}", sp.kw("print"), s, sp.kw("mem"), s, sp.num(*a as i32), s, s, sp.num(*n as i32)),
            PrintWhat::DsSpan(n) => format!("{}{}{}{}:{}{}", sp.kw("print"), s, sp.kw("mem"), s, s, sp.num(*n as i32)),
            PrintWhat::Sym { form, x, y } => match *form {
                "range" => format!("{}{}{}{}{}{}->{}{}", sp.kw("print"), s, sp.kw("mem"), s, x.src(sp), s, s, y.as_ref().unwrap().src(sp)),
                "span" => format!("{}{}{}{}{}{}:{}{}", sp.kw("print"), s, sp.kw("mem"), s, x.src(sp), s, s, y.as_ref().unwrap().src(sp)),
                _ => format!("{}{}{}{}:{}{}", sp.kw("print"), s, sp.kw("mem"), s, s, x.src(sp)),
            },
        }
    }
}

impl Ins {
    pub fn to_json(&self) -> Value {
        match self {
            Ins::BinArith { op, w, dst, src } => {
                json!({"cls":"binarith","op":op,"w":w,"dst":dst.to_json(),"src":src.to_json()})
            }
            Ins::Logic { op, w, dst, src } => {
                json!({"cls":"logic","op":op,"w":w,"dst":dst.to_json(),"src":src.to_json()})
            }
            Ins::Not { w, dst } => json!({"cls":"not","w":w,"dst":dst.to_json()}),
            Ins::Shift { op, w, dst, cnt, .. } => {
                let c = match cnt {
                    Cnt::Imm(v) => json!({"k":"imm","v":v}),
                    Cnt::Cl => json!({"k":"cl"}),
                    Cnt::Reg(r) => json!({"k":"reg","r":r}),
                };
                json!({"cls":"shift","op":op,"w":w,"dst":dst.to_json(),"cnt":c})
            }
            Ins::UnArith { op, w, dst } => json!({"cls":"unarith","op":op,"w":w,"dst":dst.to_json()}),
            Ins::Adjust { op } => json!({"cls":"adjust","op":op}),
            Ins::Mov { w, dst, src } => {
                json!({"cls":"mov","w":w,"dst":dst.to_json(),"src":src.to_json()})
            }
            Ins::Xchg { w, a, b } => json!({"cls":"xchg","w":w,"a":a.to_json(),"b":b.to_json()}),
            Ins::Push { src } => json!({"cls":"push","src":src.to_json()}),
            Ins::Pop { dst } => json!({"cls":"pop","dst":dst.to_json()}),
            Ins::FlagsX { op } => json!({"cls":"flagsx","op":op}),
            Ins::Xlat => json!({"cls":"xlat"}),
            Ins::Lea { dst, src } => json!({"cls":"lea","dst":dst.to_json(),"src":src.to_json()}),
            Ins::Ctl { op } => json!({"cls":"ctl","op":op}),
            Ins::Jcc { mn, target, label } => json!({"cls":"jcc","mn":mn,"target":target,"label":label}),
            Ins::Call { target, name } => json!({"cls":"call","target":target,"proc":name}),
            Ins::Ret => json!({"cls":"ret"}),
            Ins::Int { n } => json!({"cls":"int","n":n}),
            Ins::Str { op, w, rep, .. } => json!({"cls":"string","op":op,"w":w,"rep":rep}),
            Ins::Print { what } => json!({"cls":"print","what":what.to_json()}),
            Ins::Unsupported { text } => json!({"cls":"unsupported","text":text}),
        }
    }

    pub fn to_src(&self, sp: &Spelling) -> String {
        let s = sp.sp();
        let c = sp.comma();
        match self {
            Ins::BinArith { op, w, dst, src } | Ins::Logic { op, w, dst, src } => {
                format!("{}{}{}{}{}", sp.kw(op), s, dst.to_src(*w, sp), c, src.to_src(*w, sp))
            }
            Ins::Not { w, dst } => format!("{}{}{}", sp.kw("not"), s, dst.to_src(*w, sp)),
            Ins::Shift { mn, w, dst, cnt, .. } => {
                let cs = match cnt {
                    Cnt::Imm(v) => sp.num(*v as i32),
                    Cnt::Cl => sp.kw("cl"),
                    Cnt::Reg(r) => sp.kw(r),
                };
                format!("{}{}{}{}{}", sp.kw(mn), s, dst.to_src(*w, sp), c, cs)
            }
            Ins::UnArith { op, w, dst } => format!("{}{}{}", sp.kw(op), s, dst.to_src(*w, sp)),
            Ins::Adjust { op } | Ins::FlagsX { op } | Ins::Ctl { op } => sp.kw(op),
            Ins::Mov { w, dst, src } => {
                format!("{}{}{}{}{}", sp.kw("mov"), s, dst.to_src(*w, sp), c, src.to_src(*w, sp))
            }
            Ins::Xchg { w, a, b } => {
                format!("{}{}{}{}{}", sp.kw("xchg"), s, a.to_src(*w, sp), c, b.to_src(*w, sp))
            }
            Ins::Push { src } => format!("{}{}{}", sp.kw("push"), s, src.to_src(16, sp)),
            Ins::Pop { dst } => format!("{}{}{}", sp.kw("pop"), s, dst.to_src(16, sp)),
            Ins::Xlat => sp.kw("xlat"),
            Ins::Lea { dst, src } => {
                format!("{}{}{}{}{}", sp.kw("lea"), s, dst.to_src(16, sp), c, src.to_src(16, sp))
            }
            Ins::Jcc { mn, label, .. } => format!("{}{}{}", sp.kw(mn), s, label),
            Ins::Call { name, .. } => format!("{}{}{}", sp.kw("call"), s, name),
            Ins::Ret => sp.kw("ret"),
            Ins::Int { n } => format!("{}{}{}", sp.kw("int"), s, sp.num(*n as i32)),
            Ins::Str { op, w, repmn, .. } => {
                let body = format!("{}{}{}", sp.kw(op), s, sp.kw(if *w == 8 { "byte" } else { "word" }));
                if repmn.is_empty() {
                    body
                } else {
                    format!("{}{}{}", sp.kw(repmn), s, body)
                }
            }
            Ins::Print { what } => what.to_src(sp),
            Ins::Unsupported { text } => text.clone(),
        }
    }
}

pub const REG8: [&str; 8] = ["al", "ah", "bl", "bh", "cl", "ch", "dl", "dh"];
pub const REG16: [&str; 8] = ["ax", "bx", "cx", "dx", "sp", "bp", "si", "di"];
pub const SREG: [&str; 4] = ["es", "cs", "ss", "ds"];
pub const REGS13: [&str; 13] =
    ["ax", "bx", "cx", "dx", "sp", "bp", "si", "di", "ip", "cs", "ds", "ss", "es"];
