//! Driver-level conformance: whole programs rendered from an abstract syntax, run through the real
//! `emulator_8086` binary (built from /repo with the trace hook), and the hook's events plus the
//! captured stdout written as one unit per run for spec/TraceRun.tla.
use crate::ast::*;
use crate::gen::*;
use serde_json::{json, Value};
use std::io::{Read, Write};
use std::process::{Command, Stdio};
use std::time::{Duration, Instant};

#[derive(Clone, Debug)]
pub enum DataForm {
    Num(i32),
    Zero(u32),
    Fill(i32, u32),
    Str(String),
}

#[derive(Clone, Debug)]
pub enum DataItem {
    Set(u32),
    Def { label: Option<String>, dir: &'static str, form: DataForm },
}

#[derive(Clone, Debug)]
pub enum Item {
    Label(String),
    Ins(Ins),
    Proc { name: String, body: Vec<Item> },
    /// a macro use: the source text of the use and the instructions it stands for
    Use { text: String, expands: Vec<Ins> },
    /// verbatim source lines that emit nothing (macro definitions)
    Raw(String),
    /// an instruction the assembler must refuse; `needle` = the offending token as it appears in the line
    /// ("" = column unknown).  The diagnostic must cite this line.
    Bad(Ins, String),
    /// n lines `nop`, one instruction each (for programs of tens of thousands of instructions; kept as one item so that
    /// the event and the model stay small)
    Fill(usize),
}

#[derive(Clone, Debug)]
pub struct ScriptLine {
    pub raw: String,
    pub newline: bool,
    pub cls: &'static str,
    pub what: Option<PrintWhat>,
}

impl ScriptLine {
    pub fn next(rng: &mut Rng) -> ScriptLine {
        let raw = rng.pick(&["n", "next", "N", "NEXT", " next ", "Next", "n  ", "\u{a0}n", "next\u{3000}", "\x0bn\x0c", "\u{2003}NEXT\u{85}"]).to_string();
        ScriptLine { raw, newline: true, cls: "next", what: None }
    }
    pub fn quit(rng: &mut Rng) -> ScriptLine {
        ScriptLine { raw: rng.pick(&["q", "quit", "Q", "QUIT", " quit", "q\u{a0}", "\u{3000}quit\x0b"]).to_string(), newline: true, cls: "quit", what: None }
    }
    pub fn garbage(rng: &mut Rng) -> ScriptLine {
        let raw = rng.pick(&["", "x", "nn", "nextt", "print", "print regs", "print mem", "print mem 1 ->", "step", "mov ax, 1", "print mem 5 : ", "?", "quit now", "print flag", "1", "print reg reg"]).to_string();
        ScriptLine { raw, newline: true, cls: "garbage", what: None }
    }
    pub fn print(what: PrintWhat, upper: bool) -> ScriptLine {
        Self::print_radix(what, upper, Radix::Dec)
    }
    pub fn print_radix(what: PrintWhat, upper: bool, radix: Radix) -> ScriptLine {
        let sp = Spelling { case: if upper { Case::Upper } else { Case::Lower }, radix, wide: false, nl: false };
        ScriptLine { raw: what.to_src(&sp), newline: true, cls: "print", what: Some(what) }
    }
    /// a line that is not valid UTF-8: the private-use character U+F8FF in `raw` stands for the byte FFh
    pub fn unreadable(rng: &mut Rng) -> ScriptLine {
        let raw = rng.pick(&["\u{f8ff}", "ne\u{f8ff}xt", "print reg\u{f8ff}", "\u{f8ff}\u{f8ff} q", "abc\u{f8ff}def"]).to_string();
        ScriptLine { raw, newline: true, cls: "unreadable", what: None }
    }
    pub fn bytes(&self) -> Vec<u8> {
        let mut b: Vec<u8> = Vec::new();
        for ch in self.raw.chars() {
            if ch == '\u{f8ff}' { b.push(0xFF); } else { let mut t = [0u8; 4]; b.extend_from_slice(ch.encode_utf8(&mut t).as_bytes()); }
        }
        if self.newline {
            b.push(b'\n');
        }
        b
    }
    pub fn to_json(&self) -> Value {
        let mut v = json!({"raw": if self.newline { format!("{}\n", self.raw) } else { self.raw.clone() }, "bytes": self.bytes(), "cls": self.cls});
        if let Some(w) = &self.what {
            v["what"] = w.to_json();
        }
        v
    }
}

#[derive(Clone, Debug)]
pub struct Program {
    pub data: Vec<DataItem>,
    pub items: Vec<Item>,
    pub interp: bool,
    pub stdin: Vec<ScriptLine>,
    pub note: String,
}

#[derive(Clone, Debug)]
pub struct Layout {
    pub blank: u64,    // chance in 8 of a blank line before an item
    pub comment: u64,  // chance in 8 of a comment line / trailing comment
    pub indent: bool,
    pub trailing_newline: bool,
    pub label_same_line: bool,
    pub brace_same_line: bool,
    pub vary_spelling: bool,
    /// render every instruction / directive with exactly this spelling
    pub force: Option<Spelling>,
    /// lines end in CR LF (a source written on Windows)
    pub crlf: bool,
    /// some instructions are written on two lines (white space includes the line end); they are cited by their first line
    pub split: bool,
    /// every instruction that can be written on two lines is
    pub split_every: bool,
}

impl Layout {
    pub fn plain() -> Layout {
        Layout { blank: 0, comment: 0, indent: false, trailing_newline: true, label_same_line: false, brace_same_line: false, vary_spelling: false, force: None, crlf: false, split: false, split_every: false }
    }
    pub fn random(rng: &mut Rng) -> Layout {
        Layout { blank: rng.below(4), comment: rng.below(4), indent: rng.chance(1, 2), trailing_newline: rng.chance(3, 4), label_same_line: rng.chance(1, 3), brace_same_line: rng.chance(1, 4), vary_spelling: rng.chance(1, 2), force: None, crlf: rng.chance(1, 5), split: rng.chance(1, 4), split_every: false }
    }
}

pub struct Rendered {
    pub source: String,
    pub json: Value,
}

struct Renderer<'a> {
    /// lines that carry a trailing comment (1-based)
    commented: std::collections::HashSet<usize>,
    /// every definition of a label / procedure name: name -> (line, text of the line, column of the name)
    defs: Vec<(String, usize, String, i64)>,
    offend: Vec<Value>,
    lines: Vec<String>,
    lay: &'a Layout,
    rng: &'a mut Rng,
    pending_label: Option<String>,
}

impl<'a> Renderer<'a> {
    fn filler(&mut self) {
        if self.rng.below(8) < self.lay.blank {
            self.lines.push(String::new());
        }
        if self.rng.below(8) < self.lay.comment {
            let c = *self.rng.pick(&["; comment", ";", "   ; mov ax, 1", "; start: hlt", ";;; print reg", "; caf\u{e9} \u{20ac}5 \u{1f600}",
                                     "; the \"seed\" value", "; \"", "; x: db \"a;b\" ; \"", "; <- -> macro m(a) def f { }"]);
            self.lines.push(c.to_string());
        }
    }
    fn sp(&mut self) -> Spelling {
        if let Some(s) = self.lay.force {
            return s;
        }
        if self.lay.vary_spelling {
            crate::checks::rand_spelling(self.rng)
        } else {
            Spelling::default()
        }
    }
    /// push one source line carrying code; returns (1-based line number, text of the line without comment)
    fn code_line(&mut self, code: &str) -> (usize, String) {
        self.code_line2(code, true)
    }
    fn code_line2(&mut self, code: &str, splittable: bool) -> (usize, String) {
        self.filler();
        let mut text = String::new();
        if self.lay.indent && self.rng.chance(1, 2) {
            // blanks, tabs and (one line in five) Unicode white space, which takes more than one byte per character
            text.push_str(*self.rng.pick(&["  ", "\t", "    ", "  ", "\t", "    ", "  ", "\t", "\u{a0}\u{a0}\u{a0}\u{a0}", "\u{3000}", "\u{2003} \u{a0}"]));
        }
        let mut pending_def: Option<(String, i64)> = None;
        if let Some(l) = self.pending_label.take() {
            pending_def = Some((l.clone(), text.len() as i64));
            text.push_str(&l);
            text.push_str(": ");
        }
        // an instruction on two lines: the break comes after the first comma, or after the first word (a REP prefix, a
        // mnemonic).  Messages and prompts cite the line the instruction starts on, and show that line.
        let mut second: Option<String> = None;
        if splittable && (self.lay.split_every || (self.lay.split && self.rng.chance(1, 3))) {
            let cut = code.find(',').map(|k| k + 1).or_else(|| code.find(|c: char| c == ' ' || c == '\t'));
            if let Some(k) = cut {
                if k > 0 && k < code.len() && !code[k..].trim().is_empty() {
                    second = Some(code[k..].trim_start().to_string());
                    text.push_str(code[..k].trim_end());
                }
            }
        }
        if second.is_none() {
            text.push_str(code);
        }
        let mut full = text.clone();
        if self.rng.below(8) < self.lay.comment {
            if self.rng.chance(1, 2) {
                text.push(' ');
                full = text.clone();
            }
            // (a comment may hold anything up to the end of its line: quotes, further semicolons, brackets, arrows)
            let c = *self.rng.pick(&["; trailing comment", "; trailing comment", "; the \"seed\" value", "; \"", ";;", "; <- } ] -> \"x\""]);
            full.push_str(c);
            self.commented.insert(self.lines.len() + 1);
        }
        self.lines.push(full);
        if let Some((l, col)) = pending_def {
            self.defs.push((l, self.lines.len(), String::new(), col));
        }
        let first_line = self.lines.len();
        if let Some(rest) = second {
            self.lines.push(rest);
        }
        (first_line, text)
    }
    fn flush_label(&mut self) {
        if let Some(l) = self.pending_label.take() {
            self.filler();
            self.lines.push(format!("{}:", l));
            self.defs.push((l, self.lines.len(), String::new(), 0));
        }
    }
    fn items(&mut self, items: &[Item], in_proc: bool) -> Vec<Value> {
        let mut out = Vec::new();
        for (k, it) in items.iter().enumerate() {
            match it {
                Item::Label(name) => {
                    self.flush_label();
                    out.push(json!({"k":"label","name":name}));
                    let next_is_ins = matches!(items.get(k + 1), Some(Item::Ins(_)));
                    if self.lay.label_same_line && next_is_ins && self.rng.chance(1, 2) {
                        self.pending_label = Some(name.clone());
                    } else {
                        self.filler();
                        self.lines.push(format!("{}:", name));
                        self.defs.push((name.clone(), self.lines.len(), String::new(), 0));
                    }
                }
                Item::Ins(ins) => {
                    let sp = self.sp();
                    let code = ins.to_src(&sp);
                    let (line, text) = self.code_line(&code);
                    out.push(json!({"k":"ins","ast":ins.to_json(),"line":line,"text":text,"textb":text.as_bytes()}));
                }
                Item::Bad(ins, needle) => {
                    let sp = self.sp();
                    let code = ins.to_src(&sp);
                    let (line, text) = self.code_line2(&code, false);
                    let col: i64 = if needle.is_empty() { -1 } else {
                        let ndl = match sp.case { Case::Upper if needle.chars().all(|c| c.is_ascii_alphabetic()) => needle.to_ascii_uppercase(), _ => needle.clone() };
                        text.find(&ndl).map(|x| x as i64).unwrap_or(-1)
                    };
                    self.offend.push(json!({"line":line,"text":text,"col":col}));
                    out.push(json!({"k":"ins","ast":ins.to_json(),"line":line,"text":text,"textb":text.as_bytes()}));
                }
                Item::Use { text, expands } => {
                    let (line, t) = self.code_line(text);
                    for ins in expands {
                        out.push(json!({"k":"ins","ast":ins.to_json(),"line":line,"text":t,"textb":t.as_bytes()}));
                    }
                }
                Item::Fill(n) => {
                    self.flush_label();
                    let first = self.lines.len() + 1;
                    for _ in 0..*n {
                        self.lines.push("nop".to_string());
                    }
                    out.push(json!({"k":"fill","n":n,"line":first,"text":"nop","textb":"nop".as_bytes(),"ast":{"cls":"ctl","op":"nop"}}));
                }
                Item::Raw(text) => {
                    self.flush_label();
                    self.filler();
                    self.lines.push(text.clone());
                }
                Item::Proc { name, body } => {
                    self.flush_label();
                    assert!(!in_proc);
                    let kw = if self.lay.vary_spelling && self.rng.chance(1, 2) { "DEF" } else { "def" };
                    self.filler();
                    self.lines.push(format!("{} {} {{", kw, name));
                    self.defs.push((format!("procedure {}", name), self.lines.len(), String::new(), 0));
                    let mut b = self.items(body, true);
                    self.flush_label();
                    let last_is_ins = matches!(b.last(), Some(v) if v["k"] == "ins" && v["line"] == self.lines.len());
                    let (endline, endtext) = if self.lay.brace_same_line && last_is_ins && self.rng.chance(1, 2) && !self.lines.last().unwrap().contains(';') {
                        let n = self.lines.len();
                        self.lines[n - 1].push_str(" }");
                        // every instruction of that line now has the longer line text
                        let full = self.lines[n - 1].clone();
                        for v in b.iter_mut() {
                            if v["k"] == "ins" && v["line"] == n {
                                v["text"] = json!(full.clone());
                                v["textb"] = json!(full.as_bytes());
                            }
                        }
                        (n, full)
                    } else {
                        self.lines.push("}".to_string());
                        (self.lines.len(), "}".to_string())
                    };
                    out.push(json!({"k":"proc","name":name,"body":b,"endline":endline,"endtext":endtext,"endtextb":endtext.as_bytes()}));
                }
            }
        }
        out
    }
}

fn data_src(d: &DataItem, sp: &Spelling) -> String {
    match d {
        DataItem::Set(v) => format!("{} {}", sp.kw("set"), sp.num(*v as i32)),
        DataItem::Def { label, dir, form } => {
            let l = match label {
                Some(n) => format!("{}: ", n),
                None => String::new(),
            };
            let body = match form {
                DataForm::Num(v) => sp.num(*v),
                DataForm::Zero(n) => format!("[{}]", sp.num(*n as i32)),
                DataForm::Fill(v, n) => format!("[{} , {}]", sp.num(*v), sp.num(*n as i32)),
                DataForm::Str(s) => format!("\"{}\"", s),
            };
            format!("{}{} {}", l, sp.kw(dir), body)
        }
    }
}

pub fn data_json(d: &DataItem) -> Value {
    match d {
        DataItem::Set(v) => json!({"k":"set","v":v}),
        DataItem::Def { label, dir, form } => {
            let l = label.clone().unwrap_or_default();
            match form {
                DataForm::Num(v) => json!({"k":"def","label":l,"dir":dir,"form":"num","v":(*v as i64).rem_euclid(65536),"raw":v}),
                DataForm::Zero(n) => json!({"k":"def","label":l,"dir":dir,"form":"zero","n":n}),
                DataForm::Fill(v, n) => json!({"k":"def","label":l,"dir":dir,"form":"fill","v":(*v as i64).rem_euclid(65536),"raw":v,"n":n}),
                DataForm::Str(s) => json!({"k":"def","label":l,"dir":dir,"form":"str","bytes":s.as_bytes()}),
            }
        }
    }
}

pub fn render(p: &Program, lay: &Layout, rng: &mut Rng, n: usize) -> Rendered {
    let mut r = Renderer { commented: std::collections::HashSet::new(), defs: Vec::new(), offend: Vec::new(), lines: Vec::new(), lay, rng, pending_label: None };
    let mut data = Vec::new();
    for d in &p.data {
        r.filler();
        let sp = r.sp();
        let s = data_src(d, &sp);
        if let DataItem::Def { label: Some(name), .. } = d {
            // one data label in three stands on a line of its own above its directive
            if r.lay.indent && r.rng.chance(1, 3) {
                r.lines.push(format!("{}:", name));
                r.defs.push((name.clone(), r.lines.len(), format!("{}:", name), 0));
                r.lines.push(s[name.len() + 2..].to_string());
            } else {
                r.lines.push(s.clone());
                r.defs.push((name.clone(), r.lines.len(), s, 0));
            }
        } else {
            r.lines.push(s);
        }
        data.push(data_json(d));
    }
    let items = r.items(&p.items, false);
    r.flush_label();
    // a name defined more than once: the diagnostic may cite any of its definitions
    let names: Vec<String> = r.defs.iter().map(|d| d.0.clone()).collect();
    for (name, line, _, col) in r.defs.clone() {
        if names.iter().filter(|n| **n == name).count() > 1 {
            let text = r.lines[line - 1].split(';').next().unwrap().to_string();
            r.offend.push(json!({"line":line,"text":text,"col":col}));
        }
    }
    // CR LF line ends (never with a filler item: its lines are not listed one by one).  The text the driver shows for a
    // line runs up to the LF, so it ends in CR -- unless a trailing comment was cut off (the CR goes with it) or the line
    // is the last one of a file without final newline
    let crlf = lay.crlf && !p.items.iter().any(|x| matches!(x, Item::Fill(_)));
    let mut items = items;
    if crlf {
        let nlines = r.lines.len();
        let keep_cr = |line: usize| -> bool { !r.commented.contains(&line) && (line < nlines || lay.trailing_newline) };
        fn fix(v: &mut Value, keep_cr: &dyn Fn(usize) -> bool) {
            if let Some(arr) = v.as_array_mut() {
                for x in arr.iter_mut() { fix(x, keep_cr); }
                return;
            }
            for (lk, tk, bk) in [("line", "text", "textb"), ("endline", "endtext", "endtextb")] {
                if let (Some(line), Some(text)) = (v.get(lk).and_then(|x| x.as_u64()), v.get(tk).and_then(|x| x.as_str()).map(|x| x.to_string())) {
                    if keep_cr(line as usize) {
                        let t = format!("{}\r", text);
                        v[bk] = json!(t.as_bytes());
                        v[tk] = json!(t);
                    }
                }
            }
            if let Some(body) = v.get_mut("body") { fix(body, keep_cr); }
        }
        let mut iv = Value::Array(items);
        fix(&mut iv, &keep_cr);
        items = iv.as_array().unwrap().clone();
        let mut ov = Value::Array(r.offend.clone());
        fix(&mut ov, &keep_cr);
        r.offend = ov.as_array().unwrap().clone();
    }
    let eol = if crlf { "\r\n" } else { "\n" };
    let mut source = r.lines.join(eol);
    if lay.trailing_newline {
        source.push_str(eol);
    }
    let stdin: Vec<Value> = p.stdin.iter().map(|s| s.to_json()).collect();
    let mut pj = json!({"ev":"program","n":n,"data":data,"items":items,"interp":p.interp,"stdin":stdin,"note":p.note});
    if !r.offend.is_empty() {
        pj["offend"] = json!(r.offend);
    }
    Rendered { source, json: pj }
}

pub struct RunResult {
    pub events: Vec<Value>,
}

/// run the hooked binary on `source` with the scripted stdin; returns [program, hook events.., stdout]
pub fn run_cli(bin: &str, dir: &str, n: usize, rendered: &Rendered, stdin: &[u8], interp: bool, timeout_ms: u64) -> Vec<Value> {
    run_cli_bytes(bin, dir, n, rendered, rendered.source.as_bytes(), stdin, interp, timeout_ms)
}

/// as run_cli, with the source file given as raw bytes (it need not be text)
pub fn run_cli_bytes(bin: &str, dir: &str, n: usize, rendered: &Rendered, source: &[u8], stdin: &[u8], interp: bool, timeout_ms: u64) -> Vec<Value> {
    let src = format!("{}/p{}.s", dir, n);
    let trc = format!("{}/p{}.trace", dir, n);
    std::fs::write(&src, source).unwrap();
    let _ = std::fs::remove_file(&trc);
    let mut cmd = Command::new(bin);
    if interp {
        cmd.arg("-i");
    }
    cmd.arg(&src).env("EMU8086_VERIF_TRACE", &trc).env("RUST_BACKTRACE", "0").stdin(Stdio::piped()).stdout(Stdio::piped()).stderr(Stdio::piped());
    let mut child = cmd.spawn().expect("spawn emulator binary");
    {
        let mut si = child.stdin.take().unwrap();
        let _ = si.write_all(stdin);
        // dropping closes the pipe: end of input
    }
    let mut so = child.stdout.take().unwrap();
    let mut se = child.stderr.take().unwrap();
    let reader = std::thread::spawn(move || {
        let mut buf = Vec::new();
        let mut chunk = [0u8; 65536];
        loop {
            match so.read(&mut chunk) {
                Ok(0) | Err(_) => break,
                Ok(k) => {
                    if buf.len() < (1 << 20) {
                        buf.extend_from_slice(&chunk[..k]);
                    }
                }
            }
        }
        buf
    });
    let ereader = std::thread::spawn(move || {
        let mut buf = Vec::new();
        let mut chunk = [0u8; 4096];
        loop {
            match se.read(&mut chunk) {
                Ok(0) | Err(_) => break,
                Ok(k) => {
                    if buf.len() < 65536 {
                        buf.extend_from_slice(&chunk[..k]);
                    }
                }
            }
        }
        buf
    });
    let t0 = Instant::now();
    let mut timeout = false;
    let status: i64 = loop {
        match child.try_wait() {
            Ok(Some(st)) => {
                break match st.code() {
                    Some(c) => c as i64,
                    None => -1,
                }
            }
            Ok(None) => {
                if t0.elapsed() > Duration::from_millis(timeout_ms) {
                    timeout = true;
                    let _ = child.kill();
                    let _ = child.wait();
                    break -2;
                }
                std::thread::sleep(Duration::from_millis(2));
            }
            Err(_) => break -3,
        }
    };
    let out = reader.join().unwrap_or_default();
    let err = ereader.join().unwrap_or_default();
    let mut evs = vec![rendered.json.clone()];
    // a run that does not terminate may have logged without bound: keep the first events only
    // (the stdout event's `timeout` flag carries the verdict)
    const MAX_EVENTS: usize = 6000;
    let mut truncated = false;
    if let Ok(f) = std::fs::File::open(&trc) {
        use std::io::BufRead;
        for line in std::io::BufReader::new(f).lines() {
            let line = match line { Ok(l) => l, Err(_) => break };
            if evs.len() > MAX_EVENTS {
                truncated = true;
                break;
            }
            if let Ok(mut v) = serde_json::from_str::<Value>(&line) {
                // (representation only: the specification compares byte strings; TLA+ has no string -> bytes operator)
                if v["ev"] == "diagpos" {
                    let b: Vec<u8> = v["text"].as_str().unwrap_or("").as_bytes().to_vec();
                    v["textb"] = json!(b);
                }
                evs.push(v);
            }
        }
    }
    let out: Vec<u8> = if timeout || truncated { out.into_iter().take(4096).collect() } else { out };
    let stderr_text = String::from_utf8_lossy(&err).to_string();
    let short: String = stderr_text.chars().take(300).collect();
    let steps = evs.iter().filter(|e| e["ev"] == "step").count();
    evs.push(json!({"ev":"stdout","bytes":out,"status":status,"timeout":timeout,"truncated":truncated,"steps":steps,"stderr":short}));
    if std::env::var("VERIF_KEEP_SRC").is_err() {
        let _ = std::fs::remove_file(&src);
        let _ = std::fs::remove_file(&trc);
    }
    evs
}

/// render and run a batch of programs on `threads` threads; units are written in program order
pub fn run_batch(bin: &str, dir: &str, progs: &[(Program, Layout)], rng: &mut Rng, sh: &mut Shards, key: &str, threads: usize) {
    std::fs::create_dir_all(dir).unwrap();
    let rendered: Vec<(Rendered, Vec<u8>, bool)> = progs
        .iter()
        .enumerate()
        .map(|(n, (p, lay))| {
            let r = render(p, lay, rng, n);
            let mut sin = Vec::new();
            // only the last line of the input can lack its newline
            assert!(p.stdin.iter().rev().skip(1).all(|s| s.newline), "harness: script line without newline before the end");
            for s in &p.stdin {
                sin.extend_from_slice(&s.bytes());
            }
            (r, sin, p.interp)
        })
        .collect();
    let results: Vec<Vec<Value>> = {
        let chunk = (rendered.len() + threads - 1) / threads.max(1);
        let mut all: Vec<Vec<Vec<Value>>> = Vec::new();
        std::thread::scope(|s| {
            let mut hs = Vec::new();
            for (ci, part) in rendered.chunks(chunk.max(1)).enumerate() {
                let bin = bin.to_string();
                let dir = dir.to_string();
                hs.push(s.spawn(move || {
                    part.iter().enumerate().map(|(k, (r, sin, interp))| run_cli(&bin, &dir, ci * chunk.max(1) + k, r, sin, *interp, 8000)).collect::<Vec<_>>()
                }));
            }
            for h in hs {
                all.push(h.join().unwrap());
            }
        });
        all.into_iter().flatten().collect()
    };
    for (evs, (p, _)) in results.iter().zip(progs.iter()) {
        let fam: String = p.note.split('-').take(2).collect::<Vec<_>>().join("-");
        let refused = evs.iter().any(|e| e["ev"] == "diag");
        let ran = evs.iter().filter(|e| e["ev"] == "step").count();
        sh.count(&format!("{}:{}:{}", key, if fam.is_empty() { "generated" } else { &fam }, if refused { "refused" } else { "ran" }), 1);
        sh.count(&format!("{}-steps", key), ran as u64);
    }
    for evs in results {
        sh.count(key, 1);
        sh.count(&format!("{}-events", key), evs.len() as u64);
        sh.unit(&evs);
    }
}
