//! The repository's own example programs (/repo/examples/*.s) as abstract syntax.
//!
//! Every other workload is *rendered* from an abstract syntax tree, so its text is the harness's own
//! spelling.  These nine programs are text a user wrote.  Each is transcribed here statement by
//! statement; the k-th statement stands for the k-th line of the real file that is not blank after
//! its comment is removed.  The transcription is bound to the file twice:
//!   * C11: the real file and the rendering of the tree must make the real assembler emit the same
//!     instruction and data lists (event `spelling`), and
//!   * C08 / C12 / C17 / C18: the *real file's bytes* are run through the real binary; the program
//!     event carries the tree, with the line numbers and line texts taken from the real file, and
//!     TraceRun validates every step, the loaded image, the print output and the messages.
use crate::ast::*;
use crate::cli::*;
use serde_json::{json, Value};

pub enum Stmt {
    /// a data directive (with its label, if it has one on the same line or on the line above: see `Skip`)
    D(DataItem),
    /// a line that only carries the label of the directive on the next line
    Skip,
    /// a code label on a line of its own
    L(&'static str),
    /// a code label followed by an instruction on the same line
    LI(&'static str, Ins),
    I(Ins),
    /// a line that emits nothing (macro definition)
    R,
    /// a macro use and the instructions it stands for
    U(Vec<Ins>),
}
use Stmt::*;

fn dw(l: &str, v: i32) -> Stmt { D(DataItem::Def { label: if l.is_empty() { None } else { Some(l.to_string()) }, dir: "dw", form: DataForm::Num(v) }) }
fn db(l: &str, v: i32) -> Stmt { D(DataItem::Def { label: if l.is_empty() { None } else { Some(l.to_string()) }, dir: "db", form: DataForm::Num(v) }) }
fn dbs(l: &str, s: &str) -> Stmt { D(DataItem::Def { label: Some(l.to_string()), dir: "db", form: DataForm::Str(s.to_string()) }) }
fn r16(r: &'static str) -> Opnd { Opnd::Reg16(r) }
fn r8(r: &'static str) -> Opnd { Opnd::Reg8(r) }
fn lab(n: &str) -> Opnd { Opnd::Label { name: n.to_string(), off: 0 } }
fn off(n: &str) -> Opnd { Opnd::Offset { name: n.to_string(), off: 0 } }
fn mov(w: u8, dst: Opnd, src: Opnd) -> Stmt { I(Ins::Mov { w, dst, src }) }
fn movi(w: u8, dst: Opnd, src: Opnd) -> Ins { Ins::Mov { w, dst, src } }
fn ind(r: &'static str) -> Opnd {
    if r == "bx" || r == "bp" { Opnd::Mem { seg: "", base: r, index: "", disp: 0, has_disp: false } } else { Opnd::Mem { seg: "", base: "", index: r, disp: 0, has_disp: false } }
}
fn sind(seg: &'static str, r: &'static str) -> Opnd {
    Opnd::Mem { seg, base: "", index: r, disp: 0, has_disp: false }
}
fn jcc(mn: &'static str, l: &str) -> Stmt { I(Ins::Jcc { mn, label: l.to_string(), target: 0 }) }
fn un(op: &'static str, w: u8, dst: Opnd) -> Stmt { I(Ins::UnArith { op, w, dst }) }
fn bin(op: &'static str, w: u8, dst: Opnd, src: Opnd) -> Stmt { I(Ins::BinArith { op, w, dst, src }) }
fn print(what: PrintWhat) -> Stmt { I(Ins::Print { what }) }

pub fn examples() -> Vec<(&'static str, Vec<Stmt>)> {
    let hello = |cx: i32| vec![
        dbs("hello", "Hello World"),
        L("start"),
        mov(8, r8("ah"), Opnd::Imm(0x13)),
        mov(16, r16("cx"), Opnd::Imm(cx)),
        mov(16, r16("bx"), Opnd::Imm(0)),
        mov(16, Opnd::Sreg("es"), r16("bx")),
        mov(16, r16("bp"), off("hello")),
        mov(8, r8("dl"), Opnd::Imm(0)),
        I(Ins::Int { n: 0x10 }),
    ];
    vec![
        ("addition.s", vec![
            dw("OPR1", 0x6969), dw("OPR2", 0x0420), dw("RESULT", 0),
            L("start"),
            mov(16, r16("ax"), lab("OPR1")),
            mov(16, r16("bx"), lab("OPR2")),
            I(Ins::Ctl { op: "clc" }),
            bin("add", 16, r16("ax"), r16("bx")),
            mov(16, r16("di"), off("RESULT")),
            mov(16, ind("di"), r16("ax")),
            print(PrintWhat::Reg),
        ]),
        ("data_transfer.s", vec![
            D(DataItem::Set(0)),
            db("src", 3), db("", 5), db("", 7),
            D(DataItem::Set(1)),
            D(DataItem::Def { label: Some("dest".into()), dir: "db", form: DataForm::Fill(0, 3) }),
            L("start"),
            print(PrintWhat::Span(0, 8)),
            print(PrintWhat::Span(16, 8)),
            mov(16, r16("ax"), Opnd::Imm(0)),
            mov(16, Opnd::Sreg("ds"), r16("ax")),
            mov(16, r16("ax"), Opnd::Imm(1)),
            mov(16, Opnd::Sreg("es"), r16("ax")),
            mov(16, r16("si"), off("src")),
            mov(16, r16("si"), off("dest")),
            mov(16, r16("cx"), Opnd::Imm(3)),
            print(PrintWhat::Reg),
            L("_loop"),
            mov(8, r8("ah"), sind("ds", "si")),
            mov(8, sind("es", "di"), r8("ah")),
            un("inc", 16, r16("si")),
            un("inc", 16, r16("di")),
            un("dec", 16, r16("cx")),
            jcc("jnz", "_loop"),
            print(PrintWhat::Span(0, 8)),
            print(PrintWhat::Span(16, 8)),
        ]),
        ("factorial.s", vec![
            dw("NUM", 6), dw("RESULT", 0),
            L("start"),
            mov(16, r16("cx"), lab("NUM")),
            mov(16, r16("ax"), Opnd::Imm(1)),
            L("NOTZEROLOOP"),
            un("mul", 16, r16("cx")),
            un("dec", 16, r16("cx")),
            jcc("jnz", "NOTZEROLOOP"),
            mov(16, lab("RESULT"), r16("ax")),
            print(PrintWhat::Reg),
        ]),
        ("hello_world.s", hello(11)),
        ("interrupt.s", hello(12)),
        ("lcm_gcd.s", vec![
            dw("no1", 6), dw("no2", 5), dw("gcd", 0), dw("lcm", 0),
            L("start"),
            mov(16, r16("ax"), lab("no1")),
            mov(16, r16("bx"), lab("no2")),
            LI("loop0", movi(16, r16("dx"), Opnd::Imm(0))),
            un("div", 16, r16("bx")),
            mov(16, r16("ax"), r16("bx")),
            mov(16, r16("bx"), r16("dx")),
            bin("cmp", 16, r16("bx"), Opnd::Imm(0)),
            jcc("jnz", "loop0"),
            mov(16, lab("gcd"), r16("ax")),
            mov(16, r16("cx"), r16("ax")),
            mov(16, r16("ax"), lab("no1")),
            mov(16, r16("bx"), lab("no2")),
            un("mul", 16, r16("bx")),
            un("div", 16, r16("cx")),
            mov(16, lab("lcm"), r16("ax")),
            print(PrintWhat::DsSpan(16)),
        ]),
        ("macro.s", vec![
            dw("NUM", 6), dw("RESULT", 0),
            R,
            L("start"),
            mov(16, r16("ax"), Opnd::Imm(1)),
            L("NOTZEROLOOP"),
            U(vec![Ins::UnArith { op: "mul", w: 16, dst: lab("NUM") }]),
            un("dec", 16, lab("NUM")),
            jcc("jnz", "NOTZEROLOOP"),
            mov(16, lab("RESULT"), r16("ax")),
            print(PrintWhat::DsSpan(16)),
        ]),
        ("min_max.s", vec![
            Skip,
            db("vals", 0x12), db("", 0x34), db("", 0x78), db("", 0x13), db("", 0x99), db("", 0x65), db("", 0x85), db("", 0x11), db("", 0x84), db("", 0x36),
            db("last", 0), db("MIN", 0), db("MAX", 0),
            L("start"),
            mov(16, r16("si"), Opnd::Imm(0)),
            mov(16, r16("cx"), off("last")),
            mov(8, r8("al"), ind("si")),
            L("back"),
            bin("cmp", 8, ind("si"), r8("al")),
            jcc("jnc", "skip"),
            mov(8, r8("al"), ind("si")),
            L("skip"),
            un("inc", 16, r16("si")),
            jcc("loop", "back"),
            mov(8, lab("MIN"), r8("al")),
            mov(16, r16("si"), Opnd::Imm(0)),
            mov(16, r16("cx"), off("last")),
            mov(8, r8("al"), ind("si")),
            L("back1"),
            bin("cmp", 8, r8("al"), ind("si")),
            jcc("jnc", "skip1"),
            mov(8, r8("al"), ind("si")),
            L("skip1"),
            un("inc", 16, r16("si")),
            jcc("loop", "back1"),
            mov(8, lab("MAX"), r8("al")),
            print(PrintWhat::DsSpan(15)),
        ]),
        ("sort.s", vec![
            db("vals", 0xF), db("", 0x5A), db("", 0x24), db("", 0x2), db("", 0x56), db("last", 0),
            L("start"),
            print(PrintWhat::DsSpan(8)),
            mov(8, r8("ch"), off("last")),
            L("outer"),
            mov(8, r8("cl"), off("last")),
            mov(16, r16("si"), off("vals")),
            L("inner"),
            mov(16, r16("ax"), ind("si")),
            bin("cmp", 8, r8("al"), r8("ah")),
            jcc("jnc", "skip"),
            I(Ins::Xchg { w: 8, a: r8("al"), b: r8("ah") }),
            mov(16, ind("si"), r16("ax")),
            L("skip"),
            un("inc", 16, r16("si")),
            un("dec", 8, r8("cl")),
            jcc("jnz", "inner"),
            un("dec", 8, r8("ch")),
            jcc("jnz", "outer"),
            print(PrintWhat::DsSpan(8)),
        ]),
    ]
}

/// `(file name, the file's text, the tree as a Program (rendered with the harness's own spelling by `render`),
/// the `program` event for the real text)`; None if the file is not there or no longer has the statements
/// transcribed above (an edited example is not a verdict about the emulator: it is reported as a count).
pub fn load(dir: &str, name: &str, stmts: &[Stmt], n: usize) -> Option<(String, Program, Value)> {
    let text = std::fs::read_to_string(format!("{}/{}", dir, name)).ok()?;
    // the statement lines of the real file: 1-based number, text without its comment
    let mut lines: Vec<(usize, String)> = Vec::new();
    for (k, l) in text.split('\n').enumerate() {
        let t = l.split(';').next().unwrap_or("");
        if !t.trim().is_empty() {
            lines.push((k + 1, t.to_string()));
        }
    }
    if lines.len() != stmts.len() {
        return None;
    }
    let mut data: Vec<DataItem> = Vec::new();
    let mut items: Vec<Item> = Vec::new();
    let mut jitems: Vec<Value> = Vec::new();
    let mut pending: Option<String> = None;
    for (s, (line, t)) in stmts.iter().zip(lines.iter()) {
        let ins_json = |i: &Ins| json!({"k":"ins","ast":i.to_json(),"line":line,"text":t,"textb":t.as_bytes()});
        match s {
            D(d) => data.push(d.clone()),
            Skip => {}
            L(name) => {
                items.push(Item::Label(name.to_string()));
                jitems.push(json!({"k":"label","name":name}));
            }
            LI(name, i) => {
                items.push(Item::Label(name.to_string()));
                items.push(Item::Ins(i.clone()));
                jitems.push(json!({"k":"label","name":name}));
                jitems.push(ins_json(i));
            }
            I(i) => {
                items.push(Item::Ins(i.clone()));
                jitems.push(ins_json(i));
            }
            R => items.push(Item::Raw(t.trim().to_string())),
            U(v) => {
                items.push(Item::Use { text: t.trim().to_string(), expands: v.clone() });
                for i in v {
                    jitems.push(ins_json(i));
                }
            }
        }
        let _ = &mut pending;
    }
    let p = Program { data: data.clone(), items, interp: false, stdin: Vec::new(), note: format!("example-{}", name) };
    let dj: Vec<Value> = data.iter().map(data_json).collect();
    let ev = json!({"ev":"program","n":n,"data":dj,"items":jitems,"interp":false,"stdin":[],"note":format!("example-{}", name)});
    Some((text, p, ev))
}
