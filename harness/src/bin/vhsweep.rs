//! `vhsweep <tables.ndjson> <out.ndjson> <stride>`: C01's exhaustive word sweep.
//! Kept in a binary of its own because it calls the library's internal `word_*` functions directly: if
//! those are renamed the main harness still builds and C01 falls back to its other workloads.
use serde_json::{json, Value};

// ---------------------------------------------------------------------------------------------
// C01 thorough: all 2^32 word pairs x carry of the real word_add/adc/sub/sbb/cmp against the
// composition (ripple lemma, model-checked in MC_Alu) of the byte truth tables TLC exported from Alu.tla
// ---------------------------------------------------------------------------------------------
const ST: u16 = 1 | 4 | 16 | 64 | 128 | 2048;

struct Tables {
    add: [Vec<u32>; 2],
    sub: [Vec<u32>; 2],
}

fn load_tables(path: &str) -> Tables {
    let mut t = Tables { add: [vec![], vec![]], sub: [vec![], vec![]] };
    for line in std::fs::read_to_string(path).expect("tables").lines() {
        if line.trim().is_empty() {
            continue;
        }
        let j: Value = serde_json::from_str(line).unwrap();
        let v: Vec<u32> = j["t"].as_array().unwrap().iter().map(|x| x.as_u64().unwrap() as u32).collect();
        assert_eq!(v.len(), 65536);
        let c = j["c"].as_u64().unwrap() as usize;
        if j["op"] == "add" { t.add[c] = v; } else { t.sub[c] = v; }
    }
    t
}

/// (result, status flags) of a word operation composed from two byte operations chained through the carry
#[inline]
fn compose(tab: &[Vec<u32>; 2], a: u16, b: u16, cin: usize) -> (u16, u16) {
    let lo = tab[cin][(((a & 0xFF) as usize) << 8) | (b & 0xFF) as usize];
    let lofl = (lo >> 8) as u16;
    let cl = (lofl & 1) as usize;
    let hi = tab[cl][(((a >> 8) as usize) << 8) | (b >> 8) as usize];
    let hifl = (hi >> 8) as u16;
    let res = (((hi & 0xFF) as u16) << 8) | (lo & 0xFF) as u16;
    let zf = if (hifl & 64) != 0 && (lofl & 64) != 0 { 64 } else { 0 };
    let fl = (hifl & (1 | 128 | 2048)) | (lofl & (4 | 16)) | zf;
    (res, fl)
}

fn sweep16(tables: &str, out: &mut Vec<Value>, stride: u32) {
    use emulator_8086_lib::instructions::arithmetic as ar;
    let tabs = load_tables(tables);
    let ops: [(&str, usize); 7] = [("add", 0), ("adc", 0), ("adc", 1), ("sub", 0), ("sbb", 0), ("sbb", 1), ("cmp", 1)];
    let nthreads = 16usize;
    for (op, cin) in ops {
        let t0 = std::time::Instant::now();
        let tabs_ref = &tabs;
        let results: Vec<(u64, Vec<Value>, Vec<Value>)> = std::thread::scope(|s| {
            let hs: Vec<_> = (0..nthreads).map(|ti| {
                s.spawn(move || {
                    let mut vm = emulator_8086_lib::VM::new();
                    let mut bad: Vec<Value> = Vec::new();
                    let mut samples: Vec<Value> = Vec::new();
                    let mut n: u64 = 0;
                    let tab = if op == "add" || op == "adc" { &tabs_ref.add } else { &tabs_ref.sub };
                    let eff = if op == "adc" || op == "sbb" { cin } else { 0 };
                    let mut a = ti as u32;
                    while a < 65536 {
                        // two flag backgrounds alternate with a: everything set / everything clear (CF = cin)
                        let fin: u16 = (if a & 1 == 0 { 0xFFFE } else { 0x0000 }) | cin as u16;
                        let mut b = 0u32;
                        while b < 65536 {
                            vm.arch.flag = fin;
                            let r = match op {
                                "add" => ar::word_add(&mut vm, a as u16, b as u16),
                                "adc" => ar::word_adc(&mut vm, a as u16, b as u16),
                                "sub" => ar::word_sub(&mut vm, a as u16, b as u16),
                                "sbb" => ar::word_sbb(&mut vm, a as u16, b as u16),
                                _ => ar::word_cmp(&mut vm, a as u16, b as u16),
                            };
                            let (er, efl) = compose(tab, a as u16, b as u16, eff);
                            let fl = vm.arch.flag;
                            let ok_res = if op == "cmp" { true } else { r == er };
                            if !ok_res || (fl & ST) != efl || (fl & !ST) != (fin & !ST) {
                                if bad.len() < 5 { bad.push(json!([a, b, r, fl, er, efl])); }
                            }
                            if (a * 65536 + b) % 40_000_003 == 0 && samples.len() < 64 {
                                samples.push(json!([a, b, fin, if op == "cmp" { a as u16 } else { er }, (fin & !ST) | efl]));
                            }
                            n += 1;
                            b += stride;
                        }
                        a += nthreads as u32;
                    }
                    (n, bad, samples)
                })
            }).collect();
            hs.into_iter().map(|h| h.join().unwrap()).collect()
        });
        let pairs: u64 = results.iter().map(|r| r.0).sum();
        let bad: Vec<Value> = results.iter().flat_map(|r| r.1.clone()).take(8).collect();
        out.push(json!({"ev":"sweep16","op":op,"cin":cin,"pairs":pairs,"bad":bad,"ms":t0.elapsed().as_millis() as u64}));
        // the composition itself is sent to TLC: sampled composed results as a word batch event checked against AddW/SubW(16)
        let samples: Vec<Value> = results.iter().flat_map(|r| r.2.clone()).collect();
        for chunk in samples.chunks(64) {
            if chunk.is_empty() { continue; }
            // one event per distinct `a` is what the batch format wants; emit single-element events
            for smp in chunk {
                let (a, b, fin, res, fl) = (smp[0].as_u64().unwrap(), smp[1].as_u64().unwrap(), smp[2].as_u64().unwrap(), smp[3].as_u64().unwrap(), smp[4].as_u64().unwrap());
                out.push(json!({"ev":"alu8","op":op,"w":16,"a":a,"cin":fin & 1,"fin":fin,"bs":[b],"res":[res],"fl":[fl],"fb":[],"line":"(composed from the byte tables)"}));
            }
        }
    }
}

fn main() {
    let a: Vec<String> = std::env::args().collect();
    let stride: u32 = a.get(3).and_then(|x| x.parse().ok()).unwrap_or(251);
    let mut evs: Vec<Value> = Vec::new();
    sweep16(&a[1], &mut evs, stride);
    let mut s = String::new();
    for e in &evs {
        s.push_str(&e.to_string());
        s.push('\n');
    }
    std::fs::write(&a[2], s).unwrap();
    let pairs: u64 = evs.iter().filter(|e| e["ev"] == "sweep16").map(|e| e["pairs"].as_u64().unwrap()).sum();
    println!("{}", pairs);
}
