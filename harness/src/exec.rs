//! Drives the real library: assembles source with the real Preprocessor, executes emitted lines
//! with the real Interpreter on a real VM, and projects the machine state (13 registers, flag
//! word, every memory byte that changed in the 1 MiB, call stack, returned State) into events.
//! Panics of the code under test are caught and recorded as data (`out = "PANIC"`).
use emulator_8086_lib as lib;
use lib::{
    DataParser, Interpreter, InterpreterContext, Preprocessor, PreprocessorContext,
    PreprocessorOutput, State, VM,
};
use serde_json::{json, Value};
use std::panic::{catch_unwind, AssertUnwindSafe};

pub const MB: usize = 1 << 20;

pub fn bg(seed: i64, a: usize) -> u8 {
    if seed < 0 {
        0
    } else {
        ((((a % 65521) * 251 + (a / 4096) * 37) as i64 + seed) % 256) as u8
    }
}

#[derive(Clone, Copy, Debug, Default, PartialEq)]
pub struct Regs {
    pub ax: u16,
    pub bx: u16,
    pub cx: u16,
    pub dx: u16,
    pub sp: u16,
    pub bp: u16,
    pub si: u16,
    pub di: u16,
    pub ip: u16,
    pub cs: u16,
    pub ds: u16,
    pub ss: u16,
    pub es: u16,
}

impl Regs {
    pub fn to_json(&self) -> Value {
        json!({"ax":self.ax,"bx":self.bx,"cx":self.cx,"dx":self.dx,"sp":self.sp,"bp":self.bp,
               "si":self.si,"di":self.di,"ip":self.ip,"cs":self.cs,"ds":self.ds,"ss":self.ss,"es":self.es})
    }
    pub fn get(&self, n: &str) -> u16 {
        match n {
            "ax" => self.ax,
            "bx" => self.bx,
            "cx" => self.cx,
            "dx" => self.dx,
            "sp" => self.sp,
            "bp" => self.bp,
            "si" => self.si,
            "di" => self.di,
            "ip" => self.ip,
            "cs" => self.cs,
            "ds" => self.ds,
            "ss" => self.ss,
            "es" => self.es,
            "al" => self.ax & 0xFF,
            "ah" => self.ax >> 8,
            "bl" => self.bx & 0xFF,
            "bh" => self.bx >> 8,
            "cl" => self.cx & 0xFF,
            "ch" => self.cx >> 8,
            "dl" => self.dx & 0xFF,
            "dh" => self.dx >> 8,
            _ => panic!("harness: unknown register {}", n),
        }
    }
    pub fn set(&mut self, n: &str, v: u16) {
        match n {
            "ax" => self.ax = v,
            "bx" => self.bx = v,
            "cx" => self.cx = v,
            "dx" => self.dx = v,
            "sp" => self.sp = v,
            "bp" => self.bp = v,
            "si" => self.si = v,
            "di" => self.di = v,
            "ip" => self.ip = v,
            "cs" => self.cs = v,
            "ds" => self.ds = v,
            "ss" => self.ss = v,
            "es" => self.es = v,
            "al" => self.ax = (self.ax & 0xFF00) | (v & 0xFF),
            "ah" => self.ax = (self.ax & 0x00FF) | ((v & 0xFF) << 8),
            "bl" => self.bx = (self.bx & 0xFF00) | (v & 0xFF),
            "bh" => self.bx = (self.bx & 0x00FF) | ((v & 0xFF) << 8),
            "cl" => self.cx = (self.cx & 0xFF00) | (v & 0xFF),
            "ch" => self.cx = (self.cx & 0x00FF) | ((v & 0xFF) << 8),
            "dl" => self.dx = (self.dx & 0xFF00) | (v & 0xFF),
            "dh" => self.dx = (self.dx & 0x00FF) | ((v & 0xFF) << 8),
            _ => panic!("harness: unknown register {}", n),
        }
    }
}

pub fn read_regs(vm: &VM) -> Regs {
    let a = &vm.arch;
    Regs {
        ax: a.ax,
        bx: a.bx,
        cx: a.cx,
        dx: a.dx,
        sp: a.sp,
        bp: a.bp,
        si: a.si,
        di: a.di,
        ip: a.ip,
        cs: a.cs,
        ds: a.ds,
        ss: a.ss,
        es: a.es,
    }
}

pub fn write_regs(vm: &mut VM, r: &Regs) {
    let a = &mut vm.arch;
    a.ax = r.ax;
    a.bx = r.bx;
    a.cx = r.cx;
    a.dx = r.dx;
    a.sp = r.sp;
    a.bp = r.bp;
    a.si = r.si;
    a.di = r.di;
    a.ip = r.ip;
    a.cs = r.cs;
    a.ds = r.ds;
    a.ss = r.ss;
    a.es = r.es;
}

/// Result of assembling a program with the real preprocessor
pub struct Assembled {
    pub out: PreprocessorOutput,
    pub ictx: InterpreterContext,
    pub source_map: std::collections::HashMap<usize, usize>,
    pub undefined: Vec<(usize, String)>,
}

pub struct Asm {
    pub pre: Preprocessor,
}

impl Asm {
    pub fn new() -> Asm {
        Asm { pre: Preprocessor::new() }
    }
    /// Ok(assembled) or Err(diagnostic text); a panic inside the preprocessor is Err("PANIC: ..")
    pub fn assemble(&self, src: &str) -> Result<Assembled, String> {
        let r = catch_unwind(AssertUnwindSafe(|| {
            let mut ctx = PreprocessorContext::default();
            let mut out = PreprocessorOutput::default();
            match self.pre.parse(&mut ctx, &mut out, src) {
                Ok(_) => Ok((ctx, out)),
                Err(e) => Err(format!("{:?}", e)),
            }
        }));
        match r {
            Err(p) => Err(format!("PANIC: {}", panic_text(&p))),
            Ok(Err(e)) => Err(e),
            Ok(Ok((ctx, out))) => {
                // only the documented fields are used; `..` keeps this building if the context grows
                let PreprocessorContext { label_map, mapper, fn_map, undefined_labels, .. } = ctx;
                let mut undefined: Vec<(usize, String)> = undefined_labels
                    .into_iter()
                    .filter(|(_, l)| !label_map.contains_key(l))
                    .collect();
                undefined.sort();
                Ok(Assembled {
                    out,
                    ictx: { let mut c = InterpreterContext::default(); c.fn_map = fn_map; c.label_map = label_map; c },
                    source_map: mapper.get_source_map(),
                    undefined,
                })
            }
        }
    }
}

pub fn panic_text(p: &Box<dyn std::any::Any + Send>) -> String {
    if let Some(s) = p.downcast_ref::<&str>() {
        s.to_string()
    } else if let Some(s) = p.downcast_ref::<String>() {
        s.clone()
    } else {
        "?".to_string()
    }
}

/// A real VM plus a shadow copy of its memory, so that every changed byte is found
pub struct Mach {
    pub vm: VM,
    pub shadow: Vec<u8>,
    pub interp: Interpreter,
    pub bgseed: i64,
    /// addresses whose shadow value may differ from Bg(bgseed)
    dirty: Vec<usize>,
    filled: bool,
}

pub struct StepObs {
    pub out: &'static str,
    pub arg: u32,
    pub regs: Regs,
    pub flags: u16,
    pub memw: Vec<(usize, u8)>,
    pub stack: Vec<usize>,
    pub err: String,
}

impl StepObs {
    pub fn to_json(&self) -> Value {
        let memw: Vec<Value> = self.memw.iter().map(|(a, v)| json!([a, v])).collect();
        json!({"out":self.out,"arg":self.arg,"regs":self.regs.to_json(),"flags":self.flags,
               "memw":memw,"stack":self.stack,"err":self.err})
    }
}

impl Mach {
    pub fn new() -> Mach {
        Mach { vm: VM::new(), shadow: vec![0u8; MB], interp: Interpreter::new(), bgseed: -1, dirty: Vec::new(), filled: false }
    }

    /// Establish a state: memory = Bg(seed) overlaid by `memset`; returns the reset event
    pub fn reset(&mut self, regs: &Regs, flags: u16, seed: i64, memset: &[(usize, u8)], stack: &[usize]) -> Value {
        if seed != self.bgseed || !self.filled {
            for a in 0..MB {
                self.shadow[a] = bg(seed, a);
            }
            self.bgseed = seed;
            self.filled = true;
            self.dirty.clear();
            for (a, v) in memset {
                self.shadow[*a] = *v;
                self.dirty.push(*a);
            }
            self.vm.mem.copy_from_slice(&self.shadow);
        } else {
            // same background: undo everything that was changed since the last fill
            let _ = self.diff();
            let d = std::mem::take(&mut self.dirty);
            for a in d {
                let b = bg(seed, a);
                self.shadow[a] = b;
                self.vm.mem[a] = b;
            }
            for (a, v) in memset {
                self.shadow[*a] = *v;
                self.vm.mem[*a] = *v;
                self.dirty.push(*a);
            }
        }
        write_regs(&mut self.vm, regs);
        self.vm.arch.flag = flags;
        // the last value wins if an address is repeated
        let mut m: std::collections::BTreeMap<usize, u8> = std::collections::BTreeMap::new();
        for (a, v) in memset {
            m.insert(*a, *v);
        }
        let mem: Vec<Value> = m.iter().map(|(a, v)| json!([a, v])).collect();
        json!({"ev":"reset","regs":regs.to_json(),"flags":flags,"bg":seed,"mem":mem,"stack":stack})
    }

    /// bytes that differ from the shadow; the shadow is brought up to date
    pub fn diff(&mut self) -> Vec<(usize, u8)> {
        let mut d = Vec::new();
        let mem: &[u8] = &self.vm.mem[..];
        if mem == &self.shadow[..] {
            return d;
        }
        const CH: usize = 4096;
        for c in 0..(MB / CH) {
            let r = c * CH..(c + 1) * CH;
            if mem[r.clone()] != self.shadow[r.clone()] {
                for a in r {
                    if mem[a] != self.shadow[a] {
                        d.push((a, mem[a]));
                        self.shadow[a] = mem[a];
                        self.dirty.push(a);
                    }
                }
            }
        }
        d
    }

    /// true iff memory equals the shadow (no update)
    pub fn mem_same(&self) -> bool {
        self.vm.mem[..] == self.shadow[..]
    }

    /// Invoke the real interpreter once on `line`
    pub fn step(&mut self, idx: usize, ictx: &mut InterpreterContext, line: &str) -> StepObs {
        let vm = &mut self.vm;
        let interp = &self.interp;
        let r = catch_unwind(AssertUnwindSafe(|| match interp.parse(idx, vm, ictx, line) {
            Ok(s) => Ok(s),
            Err(e) => Err(format!("{:?}", e)),
        }));
        let (out, arg, err): (&'static str, u32, String) = match r {
            Err(p) => ("PANIC", 0, panic_text(&p)),
            Ok(Err(e)) => ("ERR", 0, e),
            Ok(Ok(s)) => match s {
                State::HALT => ("HALT", 0, String::new()),
                State::PRINT => ("PRINT", 0, String::new()),
                State::JMP(n) => ("JMP", n as u32, String::new()),
                State::NEXT => ("NEXT", 0, String::new()),
                State::INT(n) => ("INT", n as u32, String::new()),
                State::REPEAT => ("REPEAT", 0, String::new()),
            },
        };
        let memw = self.diff();
        StepObs {
            out,
            arg,
            regs: read_regs(&self.vm),
            flags: self.vm.arch.flag,
            memw,
            stack: ictx.call_stack.clone(),
            err,
        }
    }

    /// Invoke the given (possibly shared) interpreter object once on `line`
    pub fn step_shared(&mut self, interp: &Interpreter, idx: usize, ictx: &mut InterpreterContext, line: &str) -> StepObs {
        let vm = &mut self.vm;
        let r = catch_unwind(AssertUnwindSafe(|| match interp.parse(idx, vm, ictx, line) {
            Ok(s) => Ok(s),
            Err(e) => Err(format!("{:?}", e)),
        }));
        let (out, arg, err): (&'static str, u32, String) = match r {
            Err(p) => ("PANIC", 0, panic_text(&p)),
            Ok(Err(e)) => ("ERR", 0, e),
            Ok(Ok(s)) => match s {
                State::HALT => ("HALT", 0, String::new()),
                State::PRINT => ("PRINT", 0, String::new()),
                State::JMP(n) => ("JMP", n as u32, String::new()),
                State::NEXT => ("NEXT", 0, String::new()),
                State::INT(n) => ("INT", n as u32, String::new()),
                State::REPEAT => ("REPEAT", 0, String::new()),
            },
        };
        let memw = self.diff();
        StepObs { out, arg, regs: read_regs(&self.vm), flags: self.vm.arch.flag, memw, stack: ictx.call_stack.clone(), err }
    }

    /// Invoke without taking the memory diff (register-only sweeps); returns (out, arg)
    pub fn step_fast(&mut self, idx: usize, ictx: &mut InterpreterContext, line: &str) -> (&'static str, u32) {
        let vm = &mut self.vm;
        let interp = &self.interp;
        let r = catch_unwind(AssertUnwindSafe(|| interp.parse(idx, vm, ictx, line)));
        match r {
            Err(_) => ("PANIC", 0),
            Ok(Err(_)) => ("ERR", 0),
            Ok(Ok(s)) => match s {
                State::HALT => ("HALT", 0),
                State::PRINT => ("PRINT", 0),
                State::JMP(n) => ("JMP", n as u32),
                State::NEXT => ("NEXT", 0),
                State::INT(n) => ("INT", n as u32),
                State::REPEAT => ("REPEAT", 0),
            },
        }
    }
}

/// run the real data loader over the emitted data lines; Err = diagnostic/panic text
pub fn load_data(vm: &mut VM, data: &[String]) -> Result<usize, String> {
    let dp = DataParser::new();
    let mut ctr = 0usize;
    for l in data {
        let r = catch_unwind(AssertUnwindSafe(|| match dp.parse(vm, &mut ctr, l) {
            Ok(_) => Ok(()),
            Err(e) => Err(format!("{:?}", e)),
        }));
        match r {
            Err(p) => return Err(format!("PANIC: {}", panic_text(&p))),
            Ok(Err(e)) => return Err(e),
            Ok(Ok(())) => {}
        }
    }
    Ok(ctr)
}
