//! Workloads for C04 (operand forms), C05 (data transfer / stack), C07 (string / REP) and
//! C09 (totality in adversarial states).  All of them produce `reset` + `step` events validated
//! by spec/TraceStep.tla against Machine!Exec with a full register/flag/1 MiB comparison.
use crate::ast::*;
use crate::checks::rand_spelling;
use crate::exec::*;
use crate::forms::*;
use crate::gen::*;
use serde_json::{json, Value};

const L6: [u16; 6] = [0, 1, 0x7FFF, 0x8000, 0xFFFE, 0xFFFF];
const SEGV: [u16; 10] = [0, 1, 0x0FFF, 0x1000, 0x8000, 0xF000, 0xFFF0, 0xFFFE, 0xFFFF, 0x1234];

/// register file biased so that offset sums cross FFFFh and physical addresses cross FFFFFh
pub fn stress_regs(rng: &mut Rng) -> Regs {
    let mut r = random_regs(rng);
    if rng.chance(1, 2) {
        r.ds = *rng.pick(&SEGV);
        r.ss = *rng.pick(&SEGV);
        r.es = *rng.pick(&SEGV);
        r.cs = *rng.pick(&SEGV);
    }
    if rng.chance(1, 3) {
        r.bx = *rng.pick(&L6);
        r.bp = *rng.pick(&L6);
        r.si = *rng.pick(&L6);
        r.di = *rng.pick(&L6);
    } else if rng.chance(1, 3) {
        // sums near the 16-bit wrap
        r.bx = 0xFFF0u16.wrapping_add(rng.below(32) as u16);
        r.bp = 0xFFF0u16.wrapping_add(rng.below(32) as u16);
        r.si = rng.below(32) as u16;
        r.di = 0x8000u16.wrapping_add(rng.below(4) as u16).wrapping_sub(2);
    }
    if rng.chance(1, 3) {
        r.sp = *rng.pick(&[0u16, 1, 2, 3, 0xFFFE, 0xFFFF, 0x8000]);
    }
    r
}

/// all registers from the C09 lattice (uniform or independent)
pub fn adversarial_regs(rng: &mut Rng) -> Regs {
    let mut r = Regs::default();
    let uni = rng.chance(1, 4);
    let v = *rng.pick(&L6);
    for n in REGS13 {
        let x = if uni {
            v
        } else if rng.chance(1, 6) {
            rng.u16()
        } else {
            *rng.pick(&L6)
        };
        r.set(n, x);
    }
    if rng.chance(1, 3) {
        for s in ["ds", "ss", "es", "cs"] {
            r.set(s, *rng.pick(&[0xFFFFu16, 0xFFF0, 0xF001, 0xFFFE]));
        }
    }
    r
}

struct Batch<'a> {
    asm: &'a Asm,
    mach: &'a mut Mach,
    sh: &'a mut Shards,
    n: u64,
}

impl<'a> Batch<'a> {
    fn seed(&self) -> i64 {
        ((self.n / 48) % 251) as i64
    }
    fn one(&mut self, key: &str, ins: &Ins, sp: &Spelling, regs: &Regs, flags: u16, stack: &[usize]) {
        let seed = self.seed();
        self.n += 1;
        let evs = run_one(self.asm, self.mach, ins, sp, regs, flags, seed, &[], stack);
        self.sh.count(key, 1);
        self.sh.unit(&evs);
    }
}

// ---------------------------------------------------------------------------------------------
// C04
// ---------------------------------------------------------------------------------------------
pub fn gen_c04(asm: &Asm, mach: &mut Mach, rng: &mut Rng, sh: &mut Shards, thorough: bool) {
    let shapes = all_shapes();
    let reps = if thorough { 24 } else { 2 };
    let mut b = Batch { asm, mach, sh, n: 0 };
    for s in &shapes {
        for seg in SEGS {
            for w in [8u8, 16u8] {
                for _ in 0..reps {
                    let m = mem_of(s, seg, rng);
                    let key = format!("{}:{}", shape_name(s), if seg.is_empty() { "none" } else { seg });
                    let r = rand_reg(rng, w);
                    // load, store (register and immediate), read-modify-write, exchange
                    let list: Vec<Ins> = vec![
                        Ins::Mov { w, dst: r.clone(), src: m.clone() },
                        Ins::Mov { w, dst: m.clone(), src: rand_reg(rng, w) },
                        Ins::Mov { w, dst: m.clone(), src: rand_imm(rng, w, true) },
                        Ins::BinArith { op: *rng.pick(&["add", "adc", "sub", "sbb"]), w, dst: m.clone(), src: rand_reg(rng, w) },
                        Ins::BinArith { op: "cmp", w, dst: rand_reg(rng, w), src: m.clone() },
                        Ins::Logic { op: *rng.pick(&["and", "or", "xor"]), w, dst: m.clone(), src: rand_imm(rng, w, false) },
                        Ins::Not { w, dst: m.clone() },
                        Ins::UnArith { op: *rng.pick(&["inc", "dec", "neg"]), w, dst: m.clone() },
                        Ins::Xchg { w, a: m.clone(), b: rand_reg(rng, w) },
                        Ins::Xchg { w, a: rand_reg(rng, w), b: m.clone() },
                        Ins::Shift { op: "rol", mn: "rol", w, dst: m.clone(), cnt: Cnt::Imm(1) },
                        // (each of these is a production of its own in the interpreter's grammar, with its own address arithmetic)
                        { let op = *rng.pick(&["sal", "shr", "sar", "rol", "ror", "rcl", "rcr"]); Ins::Shift { op, mn: op, w, dst: m.clone(), cnt: Cnt::Cl } },
                        { let op = *rng.pick(&["sal", "shr", "sar", "rol", "ror", "rcl", "rcr"]); Ins::Shift { op, mn: op, w, dst: m.clone(), cnt: Cnt::Imm(2 + rng.below(6) as u32) } },
                        Ins::UnArith { op: *rng.pick(&["mul", "imul", "div", "idiv"]), w, dst: m.clone() },
                        Ins::Logic { op: "test", w, dst: m.clone(), src: rand_reg(rng, w) },
                        Ins::BinArith { op: *rng.pick(&["add", "adc", "sub", "sbb"]), w, dst: rand_reg(rng, w), src: m.clone() },
                        Ins::BinArith { op: *rng.pick(&["add", "cmp"]), w, dst: m.clone(), src: rand_imm(rng, w, true) },
                    ];
                    for ins in list {
                        let regs = stress_regs(rng);
                        b.one(&format!("c04:{}", key), &ins, &rand_spelling(rng), &regs, rng.u16(), &[]);
                    }
                    if w == 16 {
                        let regs = stress_regs(rng);
                        b.one(&format!("c04:lea:{}", key), &Ins::Lea { dst: rand_reg16(rng), src: m.clone() }, &rand_spelling(rng), &regs, rng.u16(), &[]);
                        let regs = stress_regs(rng);
                        b.one(&format!("c04:push:{}", key), &Ins::Push { src: m.clone() }, &rand_spelling(rng), &regs, rng.u16(), &[]);
                        let regs = stress_regs(rng);
                        b.one(&format!("c04:pop:{}", key), &Ins::Pop { dst: m.clone() }, &rand_spelling(rng), &regs, rng.u16(), &[]);
                        let regs = stress_regs(rng);
                        b.one(&format!("c04:movsreg:{}", key), &Ins::Mov { w: 16, dst: Opnd::Sreg(*rng.pick(&["es", "ds", "ss"])), src: m.clone() }, &rand_spelling(rng), &regs, rng.u16(), &[]);
                        let regs = stress_regs(rng);
                        b.one(&format!("c04:movsreg:{}", key), &Ins::Mov { w: 16, dst: m.clone(), src: Opnd::Sreg(*rng.pick(&SREG)) }, &rand_spelling(rng), &regs, rng.u16(), &[]);
                    }
                }
            }
        }
    }
    // explicit boundary cases: offset sum crossing FFFFh, physical address crossing FFFFFh, word at FFFFFh
    let edge_regs: Vec<Regs> = {
        let mut v = Vec::new();
        for (bx, si, ds) in [(0xFFFFu16, 1u16, 0u16), (0xFFFF, 0xFFFF, 0xFFFF), (0x8000, 0x8000, 0xF000), (0xFFFE, 0, 0xFFFF), (0x000F, 0, 0xFFFF), (0xFFFF, 0, 0xF000), (0, 0xFFFF, 0xFFFF)] {
            let mut r = random_regs(rng);
            r.bx = bx;
            r.bp = bx;
            r.si = si;
            r.di = si;
            r.ds = ds;
            r.ss = ds;
            r.es = ds;
            r.cs = ds;
            v.push(r);
        }
        v
    };
    for regs in &edge_regs {
        for s in &shapes {
            for seg in ["", "es"] {
                for disp in [0i32, 1, -1, 32767, -32768, 65535] {
                    let m = match mem_of(s, seg, rng) {
                        Opnd::Mem { seg, base, index, has_disp, .. } if has_disp => Opnd::Mem { seg, base, index, disp: if base.is_empty() && index.is_empty() { disp.rem_euclid(65536) } else { disp }, has_disp },
                        o => o,
                    };
                    for ins in [
                        Ins::Mov { w: 16, dst: Opnd::Reg16("dx"), src: m.clone() },
                        Ins::Mov { w: 16, dst: m.clone(), src: Opnd::Reg16("cx") },
                        Ins::Mov { w: 8, dst: m.clone(), src: Opnd::Reg8("ch") },
                        Ins::UnArith { op: "inc", w: 16, dst: m.clone() },
                        Ins::Lea { dst: Opnd::Reg16("ax"), src: m.clone() },
                    ] {
                        b.one("c04:edges", &ins, &Spelling::default(), regs, 0x0002, &[]);
                    }
                }
            }
        }
    }
    // the lattice of the TLC model (MC_Machine C04Addressing) on the real code: every shape x override x
    // base/index from {0,1,7FFF,8000,FFFE,FFFF} x segment value x displacement, rotating through four operations
    let segvals: [u16; 6] = [0, 1, 0x0FFF, 0x1000, 0xF000, 0xFFFF];
    let mut kk: u64 = 0;
    for s in &shapes {
        for seg in SEGS {
            for bv in L6 {
                for iv in L6 {
                    for sv in segvals {
                        for disp in [0i32, 1, -1, 32767, -32768] {
                            kk += 1;
                            if !thorough && kk % 11 != 0 {
                                continue;
                            }
                            let m = match mem_of(s, seg, rng) {
                                Opnd::Mem { seg, base, index, has_disp, .. } if has_disp => Opnd::Mem { seg, base, index, disp: if base.is_empty() && index.is_empty() { disp.rem_euclid(65536) } else { disp }, has_disp },
                                o => o,
                            };
                            let mut regs = random_regs(rng);
                            regs.bx = bv;
                            regs.bp = bv;
                            regs.si = iv;
                            regs.di = iv;
                            regs.ds = sv;
                            regs.ss = sv.wrapping_add(7);
                            regs.es = sv.wrapping_add(11);
                            regs.cs = sv.wrapping_add(13);
                            let ins = match kk % 4 {
                                0 => Ins::Mov { w: 16, dst: Opnd::Reg16("dx"), src: m },
                                1 => Ins::Mov { w: 8, dst: m, src: Opnd::Reg8("ch") },
                                2 => Ins::UnArith { op: "inc", w: 16, dst: m },
                                _ => Ins::Lea { dst: Opnd::Reg16("ax"), src: m },
                            };
                            b.one("c04:model-lattice", &ins, &Spelling::default(), &regs, 0x0002, &[]);
                        }
                    }
                }
            }
        }
    }
    // data labels (DS-relative, whatever DS currently is)
    for _ in 0..(if thorough { 600 } else { 60 }) {
        let l = rand_label(rng);
        let w = if rng.chance(1, 2) { 8 } else { 16 };
        let list: Vec<Ins> = vec![
            Ins::Mov { w, dst: rand_reg(rng, w), src: l.clone() },
            Ins::Mov { w, dst: l.clone(), src: rand_reg(rng, w) },
            Ins::BinArith { op: "add", w, dst: l.clone(), src: rand_imm(rng, w, true) },
            Ins::UnArith { op: "dec", w, dst: l.clone() },
            Ins::Lea { dst: rand_reg16(rng), src: l.clone() },
            Ins::Xchg { w, a: rand_reg(rng, w), b: l.clone() },
        ];
        for ins in list {
            let regs = stress_regs(rng);
            b.one("c04:label", &ins, &rand_spelling(rng), &regs, rng.u16(), &[]);
        }
    }
    // byte registers alias their halves: every ordered pair, immediates, exchanges
    for d in REG8 {
        for s in REG8 {
            let regs = random_regs(rng);
            b.one("c04:reg8-mov", &Ins::Mov { w: 8, dst: Opnd::Reg8(d), src: Opnd::Reg8(s) }, &rand_spelling(rng), &regs, rng.u16(), &[]);
            let regs = random_regs(rng);
            b.one("c04:reg8-xchg", &Ins::Xchg { w: 8, a: Opnd::Reg8(d), b: Opnd::Reg8(s) }, &rand_spelling(rng), &regs, rng.u16(), &[]);
            let regs = random_regs(rng);
            b.one("c04:reg8-add", &Ins::BinArith { op: "add", w: 8, dst: Opnd::Reg8(d), src: Opnd::Reg8(s) }, &rand_spelling(rng), &regs, rng.u16(), &[]);
        }
        let regs = random_regs(rng);
        b.one("c04:reg8-imm", &Ins::Mov { w: 8, dst: Opnd::Reg8(d), src: rand_imm(rng, 8, true) }, &rand_spelling(rng), &regs, rng.u16(), &[]);
        let regs = random_regs(rng);
        b.one("c04:reg8-not", &Ins::Not { w: 8, dst: Opnd::Reg8(d) }, &rand_spelling(rng), &regs, rng.u16(), &[]);
    }
    for d in REG16 {
        for s in REG16 {
            let regs = random_regs(rng);
            b.one("c04:reg16-mov", &Ins::Mov { w: 16, dst: Opnd::Reg16(d), src: Opnd::Reg16(s) }, &rand_spelling(rng), &regs, rng.u16(), &[]);
        }
    }
}

// ---------------------------------------------------------------------------------------------
// C05
// ---------------------------------------------------------------------------------------------
fn stack_regs(rng: &mut Rng) -> Regs {
    let mut r = stress_regs(rng);
    if rng.chance(2, 3) {
        r.sp = *rng.pick(&[0u16, 1, 2, 3, 4, 0xFFFC, 0xFFFD, 0xFFFE, 0xFFFF, 0x8000, 0x7FFF]);
    }
    if rng.chance(1, 2) {
        r.ss = *rng.pick(&[0u16, 0x1000, 0xF000, 0xFFFF, 0xFFF0, 0xF001]);
    }
    r
}

pub fn gen_c05(asm: &Asm, mach: &mut Mach, rng: &mut Rng, sh: &mut Shards, thorough: bool) {
    let reps = if thorough { 200 } else { 12 };
    let mut b = Batch { asm, mach, sh, n: 0 };
    // MOV: every operand-kind pair of syntax.md
    for w in [8u8, 16u8] {
        for p in PAIRS {
            for _ in 0..reps {
                let (dst, src) = pair_operands(p, w, true, rng, None);
                let regs = stress_regs(rng);
                b.one(&format!("mov:{:?}:{}", p, w), &Ins::Mov { w, dst, src }, &rand_spelling(rng), &regs, rng.u16(), &[]);
            }
        }
    }
    for _ in 0..reps {
        for sr in SREG {
            let sreg_dst: &[&'static str] = &["es", "ss", "ds", "cs"];
            let _ = sreg_dst;
            let cases: Vec<(&str, Ins)> = vec![
                ("mov:sreg,reg", Ins::Mov { w: 16, dst: Opnd::Sreg(sr), src: rand_reg16(rng) }),
                ("mov:reg,sreg", Ins::Mov { w: 16, dst: rand_reg16(rng), src: Opnd::Sreg(sr) }),
                ("mov:sreg,mem", Ins::Mov { w: 16, dst: Opnd::Sreg(sr), src: rand_mem(rng) }),
                ("mov:sreg,label", Ins::Mov { w: 16, dst: Opnd::Sreg(sr), src: rand_label(rng) }),
                ("mov:mem,sreg", Ins::Mov { w: 16, dst: rand_mem(rng), src: Opnd::Sreg(sr) }),
                ("mov:label,sreg", Ins::Mov { w: 16, dst: rand_label(rng), src: Opnd::Sreg(sr) }),
            ];
            for (k, ins) in cases {
                let regs = stress_regs(rng);
                b.one(k, &ins, &rand_spelling(rng), &regs, rng.u16(), &[]);
            }
        }
    }
    // XCHG: every alternative, both operand orders
    for w in [8u8, 16u8] {
        for _ in 0..reps {
            let cases: Vec<(&str, Ins)> = vec![
                ("xchg:reg,reg", Ins::Xchg { w, a: rand_reg(rng, w), b: rand_reg(rng, w) }),
                ("xchg:mem,reg", Ins::Xchg { w, a: rand_mem(rng), b: rand_reg(rng, w) }),
                ("xchg:reg,mem", Ins::Xchg { w, a: rand_reg(rng, w), b: rand_mem(rng) }),
                ("xchg:label,reg", Ins::Xchg { w, a: rand_label(rng), b: rand_reg(rng, w) }),
                ("xchg:reg,label", Ins::Xchg { w, a: rand_reg(rng, w), b: rand_label(rng) }),
            ];
            for (k, ins) in cases {
                let regs = stress_regs(rng);
                b.one(k, &ins, &rand_spelling(rng), &regs, rng.u16(), &[]);
            }
        }
    }
    // PUSH / POP: every operand kind, adversarial SS:SP
    for _ in 0..(reps * 2) {
        let mut cases: Vec<(&str, Ins)> = Vec::new();
        for r in REG16 {
            cases.push(("push:reg", Ins::Push { src: Opnd::Reg16(r) }));
            cases.push(("pop:reg", Ins::Pop { dst: Opnd::Reg16(r) }));
        }
        for sr in SREG {
            cases.push(("push:sreg", Ins::Push { src: Opnd::Sreg(sr) }));
            if sr != "cs" {
                cases.push(("pop:sreg", Ins::Pop { dst: Opnd::Sreg(sr) }));
            }
        }
        cases.push(("push:mem", Ins::Push { src: rand_mem(rng) }));
        cases.push(("pop:mem", Ins::Pop { dst: rand_mem(rng) }));
        cases.push(("push:label", Ins::Push { src: rand_label(rng) }));
        cases.push(("pop:label", Ins::Pop { dst: rand_label(rng) }));
        for op in ["pushf", "popf", "lahf", "sahf"] {
            cases.push(("flagsx", Ins::FlagsX { op }));
        }
        cases.push(("xlat", Ins::Xlat));
        for (k, ins) in cases {
            let regs = stack_regs(rng);
            b.one(k, &ins, &rand_spelling(rng), &regs, rng.u16(), &[]);
        }
    }
    // PUSH / POP of a memory operand whose word lies -2 .. 2 bytes from the stack word, for every operand kind, in the
    // middle of memory, at the end of the 1 MB space and across a segment end
    crate::gen::PLACE.store(false, std::sync::atomic::Ordering::Relaxed);
    for round in 0..(reps.max(2) as u64) {
        for (ds, off) in [(0x2000u16, 0x0100u32), (0xFFFF, 0x000E), (0xFFFF, 0x000F), (0xF000, 0xFFFF), (0x1234, 0xFFFE), (0x0000, 0x0001)] {
            for form in 0..4usize {
                for k in 0..5u64 {
                    for push in [true, false] {
                        let mut regs = stress_regs(rng);
                        regs.ds = ds;
                        let o = match form {
                            0 => Opnd::Label { name: format!("vl{}", off), off },
                            1 => Opnd::Mem { seg: "", base: "", index: "", disp: off as i32, has_disp: true },
                            2 => { regs.bx = off as u16; Opnd::Mem { seg: "", base: "bx", index: "", disp: 0, has_disp: false } }
                            _ => { regs.si = (off as u16).wrapping_sub(3); regs.es = ds; Opnd::Mem { seg: "es", base: "", index: "si", disp: 3, has_disp: true } }
                        };
                        let ins = if push { Ins::Push { src: o } } else { Ins::Pop { dst: o } };
                        let regs = crate::gen::stack_place(&ins, &regs, k * 2 + (round % 2));
                        b.one(if push { "push:mem-overlap" } else { "pop:mem-overlap" }, &ins, &rand_spelling(rng), &regs, rng.u16(), &[]);
                    }
                }
            }
        }
    }
    crate::gen::PLACE.store(true, std::sync::atomic::Ordering::Relaxed);
    // LAHF/SAHF/PUSHF/POPF under every low flag byte; XLAT with BX+AL crossing FFFFh
    for lo in 0..256u16 {
        for op in ["lahf", "sahf", "pushf", "popf"] {
            let mut regs = stack_regs(rng);
            regs.ax = (lo << 8) | (rng.u8() as u16);
            let flags = (rng.u16() & 0xFF00) | (lo ^ 0x5A);
            b.one("flagsx-sweep", &Ins::FlagsX { op }, &Spelling::default(), &regs, flags, &[]);
        }
        let mut regs = stress_regs(rng);
        regs.bx = 0xFF00u16.wrapping_add(lo);
        b.one("xlat-sweep", &Ins::Xlat, &Spelling::default(), &regs, rng.u16(), &[]);
    }
    // random push/pop sequences as multi-step units (every step validated, state carried over)
    let nseq = if thorough { 3000 } else { 150 };
    for _ in 0..nseq {
        let len = 2 + rng.below(if thorough { 40 } else { 12 }) as usize;
        let regs = stack_regs(rng);
        let ops: Vec<Ins> = (0..len).map(|_| rand_stack_op(rng)).collect();
        let seed = b.seed();
        b.n += 1;
        let evs = run_seq(b.asm, b.mach, &ops, &regs, rng.u16(), seed);
        b.sh.count("stack-sequence-steps", len as u64);
        b.sh.unit(&evs);
    }
}

pub fn rand_stack_op(rng: &mut Rng) -> Ins {
    match rng.below(12) {
        0 | 1 | 2 => Ins::Push { src: Opnd::Reg16(*rng.pick(&REG16)) },
        3 | 4 | 5 => Ins::Pop { dst: Opnd::Reg16(*rng.pick(&["ax", "bx", "cx", "dx", "bp", "si", "di"])) },
        6 => Ins::Push { src: Opnd::Sreg(*rng.pick(&SREG)) },
        7 => Ins::Pop { dst: Opnd::Sreg(*rng.pick(&["es", "ds"])) },
        8 => Ins::Push { src: rand_mem(rng) },
        9 => Ins::Pop { dst: rand_mem(rng) },
        10 => Ins::FlagsX { op: *rng.pick(&["pushf", "popf"]) },
        _ => Ins::Mov { w: 16, dst: Opnd::Reg16(*rng.pick(&["ax", "bx", "cx"])), src: rand_imm(rng, 16, true) },
    }
}

/// Assemble `ops` as one program (after `start:`) and execute it instruction by instruction,
/// following NEXT only (straight-line code); returns [reset, step, step, ...]
pub fn run_seq(asm: &Asm, mach: &mut Mach, ops: &[Ins], regs: &Regs, flags: u16, seed: i64) -> Vec<Value> {
    let mut labels: Vec<DataLabel> = Vec::new();
    for i in ops {
        for l in labels_of(i) {
            if !labels.iter().any(|x| x.name == l.name) {
                labels.push(l);
            }
        }
    }
    let sp = Spelling::default();
    let (mut src, _) = program_for(&Ins::Ctl { op: "nop" }, &labels, &sp);
    // program_for emitted "start:\nnop\n"; replace the nop by the sequence
    src.truncate(src.len() - "nop\n".len());
    for i in ops {
        src.push_str(&i.to_src(&sp));
        src.push('\n');
    }
    let mut evs = Vec::new();
    match asm.assemble(&src) {
        Err(e) => evs.push(json!({"ev":"asmfail","src":src,"err":e})),
        Ok(mut a) => {
            if a.out.code.len() != ops.len() {
                evs.push(json!({"ev":"asmfail","src":src,"err":format!("{} instructions emitted for {} source instructions", a.out.code.len(), ops.len())}));
                return evs;
            }
            evs.push(mach.reset(regs, flags, seed, &[], &[]));
            for (idx, i) in ops.iter().enumerate() {
                let line = a.out.code[idx].clone();
                let o = mach.step(idx, &mut a.ictx, &line);
                let stop = o.out != "NEXT";
                let mut ev = o.to_json();
                ev["ev"] = json!("step");
                ev["ast"] = i.to_json();
                ev["idx"] = json!(idx);
                ev["line"] = json!(line);
                ev["src"] = json!(if idx == 0 { src.clone() } else { String::new() });
                evs.push(ev);
                if stop {
                    break;
                }
            }
        }
    }
    evs
}

/// spec -> impl: histories printed by TLC (MC_C05_gen.cfg), one JSON object per line:
/// {"sp":..,"ss":..,"ops":[abstract instructions]} with the model's fixed register file
pub fn replay_c05(asm: &Asm, mach: &mut Mach, sh: &mut Shards, path: &str) {
    let text = std::fs::read_to_string(path).expect("history file");
    for (n, line) in text.lines().enumerate() {
        if line.trim().is_empty() {
            continue;
        }
        let h: Value = serde_json::from_str(line).expect("history json");
        let ops: Vec<Ins> = h["ops"].as_array().unwrap().iter().map(ins_from_json).collect();
        let regs = Regs { ax: 4660, bx: 43981, cx: 0, dx: 0, sp: h["sp"].as_u64().unwrap() as u16, bp: 0, si: 0, di: 0, ip: 0, cs: 8192, ds: 8192, ss: h["ss"].as_u64().unwrap() as u16, es: 12345 };
        let evs = run_seq(asm, mach, &ops, &regs, 2 + 1 + 128 + 1024, 5);
        sh.count("tlc-history-steps", ops.len() as u64);
        sh.count("tlc-histories", 1);
        let _ = n;
        sh.unit(&evs);
    }
}

fn opnd_from_json(v: &Value) -> Opnd {
    let st = |s: &str| -> &'static str {
        for x in REG8.iter().chain(REG16.iter()).chain(SREG.iter()).chain(["", "ip"].iter()) {
            if *x == s {
                return x;
            }
        }
        panic!("harness: unknown name {}", s)
    };
    match v["k"].as_str().unwrap() {
        "reg8" => Opnd::Reg8(st(v["r"].as_str().unwrap())),
        "reg16" => Opnd::Reg16(st(v["r"].as_str().unwrap())),
        "sreg" => Opnd::Sreg(st(v["r"].as_str().unwrap())),
        "imm" => Opnd::Imm(v.get("raw").and_then(|x| x.as_i64()).unwrap_or_else(|| v["v"].as_i64().unwrap()) as i32),
        "offset" => Opnd::Offset { name: v["name"].as_str().unwrap().to_string(), off: v["v"].as_u64().unwrap_or(0) as u32 },
        "mem" => Opnd::Mem { seg: st(v["seg"].as_str().unwrap()), base: st(v["base"].as_str().unwrap()), index: st(v["index"].as_str().unwrap()), disp: v["disp"].as_i64().unwrap() as i32, has_disp: !v.get("nd").and_then(|x| x.as_bool()).unwrap_or(false) },
        "label" => Opnd::Label { name: v.get("name").and_then(|x| x.as_str()).filter(|n| n.len() > 1).map(|n| n.to_string()).unwrap_or_else(|| format!("vl{}", v["off"].as_u64().unwrap())), off: v["off"].as_u64().unwrap() as u32 },
        k => panic!("harness: operand kind {}", k),
    }
}

fn stat(s: &str, table: &[&'static str]) -> &'static str {
    for x in table {
        if *x == s {
            return x;
        }
    }
    panic!("harness: unknown mnemonic {}", s)
}

pub fn ins_from_json(v: &Value) -> Ins {
    let w = v.get("w").and_then(|x| x.as_u64()).unwrap_or(16) as u8;
    let op = v.get("op").and_then(|x| x.as_str()).unwrap_or("");
    match v["cls"].as_str().unwrap() {
        "push" => Ins::Push { src: opnd_from_json(&v["src"]) },
        "pop" => Ins::Pop { dst: opnd_from_json(&v["dst"]) },
        "flagsx" => Ins::FlagsX { op: stat(op, &["pushf", "popf", "lahf", "sahf"]) },
        "xchg" => Ins::Xchg { w, a: opnd_from_json(&v["a"]), b: opnd_from_json(&v["b"]) },
        "mov" => Ins::Mov { w, dst: opnd_from_json(&v["dst"]), src: opnd_from_json(&v["src"]) },
        "ctl" => Ins::Ctl { op: stat(op, &["stc", "clc", "cmc", "std", "cld", "sti", "cli", "nop", "hlt"]) },
        "unarith" => Ins::UnArith { op: stat(op, &["inc", "dec", "neg", "mul", "imul", "div", "idiv"]), w, dst: opnd_from_json(&v["dst"]) },
        "binarith" => Ins::BinArith { op: stat(op, &["add", "adc", "sub", "sbb", "cmp"]), w, dst: opnd_from_json(&v["dst"]), src: opnd_from_json(&v["src"]) },
        "jcc" => {
            let mn = v["mn"].as_str().unwrap();
            let all: Vec<&'static str> = crate::checks::JCC_SPELLINGS.iter().chain(crate::checks::CX_SPELLINGS.iter()).cloned().collect();
            Ins::Jcc { mn: stat(mn, &all), label: v["label"].as_str().unwrap().to_string(), target: 0 }
        }
        "call" => Ins::Call { name: v["proc"].as_str().unwrap().to_string(), target: 0 },
        "ret" => Ins::Ret,
        "logic" => Ins::Logic { op: stat(op, &["and", "or", "xor", "test"]), w, dst: opnd_from_json(&v["dst"]), src: opnd_from_json(&v["src"]) },
        "not" => Ins::Not { w, dst: opnd_from_json(&v["dst"]) },
        "shift" => {
            let mn = v.get("mn").and_then(|x| x.as_str()).unwrap_or(op);
            let cnt = if v["cnt"]["k"] == "cl" { Cnt::Cl } else if v["cnt"]["k"] == "reg" { Cnt::Reg(stat(v["cnt"]["r"].as_str().unwrap(), &["al", "bl", "dl", "ch", "dh", "cx", "ax"])) } else { Cnt::Imm(v["cnt"]["v"].as_u64().unwrap() as u32) };
            Ins::Shift { op: stat(op, &["sal", "shr", "sar", "rol", "ror", "rcl", "rcr"]), mn: stat(mn, &["sal", "shl", "shr", "sar", "rol", "ror", "rcl", "rcr"]), w, dst: opnd_from_json(&v["dst"]), cnt }
        }
        "adjust" => Ins::Adjust { op: stat(op, &["aaa", "aas", "daa", "das", "aam", "aad", "cbw", "cwd"]) },
        "xlat" => Ins::Xlat,
        "lea" => Ins::Lea { dst: opnd_from_json(&v["dst"]), src: opnd_from_json(&v["src"]) },
        "int" => Ins::Int { n: v["n"].as_u64().unwrap() as u32 },
        "print" => {
            let wt = &v["what"];
            let g = |k: &str| wt[k].as_u64().unwrap() as u32;
            Ins::Print { what: match wt["k"].as_str().unwrap() {
                "flags" => PrintWhat::Flags,
                "reg" => PrintWhat::Reg,
                "range" => PrintWhat::Range(g("a"), g("b")),
                "span" => PrintWhat::Span(g("a"), g("n")),
                _ => PrintWhat::DsSpan(g("n")),
            } }
        }
        "string" => {
            let rep = v["rep"].as_str().unwrap();
            let rmn = v.get("repmn").and_then(|x| x.as_str()).unwrap_or("");
            let (r, rm): (&'static str, &'static str) = match (rep, rmn) {
                ("", _) => ("", ""),
                ("rep", _) => ("rep", "rep"),
                ("repz", "repz") => ("repz", "repz"),
                ("repz", _) => ("repz", "repe"),
                (_, "repnz") => ("repnz", "repnz"),
                _ => ("repnz", "repne"),
            };
            Ins::Str { op: stat(op, &["movs", "lods", "stos", "cmps", "scas"]), w, rep: r, repmn: rm }
        }
        c => panic!("harness: replay of class {} not supported", c),
    }
}

// ---------------------------------------------------------------------------------------------
// C07
// ---------------------------------------------------------------------------------------------
pub const STR_COMBOS: [(&str, &str, &str); 14] = [
    ("movs", "", ""), ("lods", "", ""), ("stos", "", ""), ("cmps", "", ""), ("scas", "", ""),
    ("movs", "rep", "rep"), ("lods", "rep", "rep"), ("stos", "rep", "rep"),
    ("cmps", "repz", "repe"), ("cmps", "repz", "repz"), ("cmps", "repnz", "repne"), ("cmps", "repnz", "repnz"),
    ("scas", "repz", "repe"), ("scas", "repnz", "repne"),
];

/// drive one (possibly REP-prefixed) string line through the REPEAT protocol to completion
pub fn run_string(asm: &Asm, mach: &mut Mach, ins: &Ins, sp: &Spelling, regs: &Regs, flags: u16, seed: i64, memset: &[(usize, u8)]) -> Vec<Value> {
    let mut evs = Vec::new();
    match assemble_ins(asm, ins, sp) {
        Err((e, src)) => evs.push(json!({"ev":"asmfail","ast":ins.to_json(),"src":src,"err":e})),
        Ok((mut a, idx, src)) => {
            evs.push(mach.reset(regs, flags, seed, memset, &[]));
            let line = a.out.code[idx].clone();
            let cap = regs.cx as usize + 3;
            for k in 0..cap {
                let o = mach.step(idx, &mut a.ictx, &line);
                let again = o.out == "REPEAT";
                let mut ev = o.to_json();
                ev["ev"] = json!("step");
                ev["ast"] = ins.to_json();
                ev["idx"] = json!(idx);
                ev["line"] = json!(line);
                ev["src"] = json!(if k == 0 { src.clone() } else { String::new() });
                evs.push(ev);
                if !again {
                    return evs;
                }
            }
            // still REPEAT after CX0 + 3 invocations: the repetition does not terminate
            evs.push(json!({"ev":"nonterminating","ast":ins.to_json(),"line":line,"invocations":cap}));
        }
    }
    evs
}

fn string_regs(rng: &mut Rng, cx: u16) -> Regs {
    let mut r = stress_regs(rng);
    r.cx = cx;
    match rng.below(5) {
        0 => {
            // overlap inside one segment
            r.es = r.ds;
            r.di = r.si.wrapping_add(rng.below(5) as u16).wrapping_sub(2);
        }
        1 => {
            // SI/DI crossing FFFFh / 0
            r.si = 0xFFFCu16.wrapping_add(rng.below(8) as u16);
            r.di = 0xFFFCu16.wrapping_add(rng.below(8) as u16);
        }
        2 => {
            r.ds = 0xFFFF;
            r.es = 0xFFFF;
            r.si = rng.below(40) as u16;
            r.di = 0x20u16.wrapping_sub(rng.below(40) as u16);
        }
        _ => {}
    }
    r
}

/// as run_string, for a prefix / instruction pairing the interpreter reads but the assembler never writes (`rep cmps`,
/// `rep scas`): the line is the one emitted for `stand_in` with its prefix word replaced
pub fn run_string_direct(asm: &Asm, mach: &mut Mach, ins: &Ins, stand_in: &Ins, prefix: &str, regs: &Regs, flags: u16, seed: i64, memset: &[(usize, u8)]) -> Vec<Value> {
    let mut evs = Vec::new();
    if let Ok((mut a, idx, src)) = assemble_ins(asm, stand_in, &Spelling::default()) {
        let emitted = a.out.code[idx].clone();
        let rest = emitted.splitn(2, ' ').nth(1).unwrap_or("").to_string();
        let line = format!("{} {}", prefix, rest);
        evs.push(mach.reset(regs, flags, seed, memset, &[]));
        let cap = regs.cx as usize + 3;
        for k in 0..cap {
            let o = mach.step(idx, &mut a.ictx, &line);
            let again = o.out == "REPEAT";
            let mut ev = o.to_json();
            ev["ev"] = json!("step");
            ev["ast"] = ins.to_json();
            ev["idx"] = json!(idx);
            ev["line"] = json!(line);
            ev["src"] = json!(if k == 0 { src.clone() } else { String::new() });
            evs.push(ev);
            if !again {
                return evs;
            }
        }
        evs.push(json!({"ev":"nonterminating","ast":ins.to_json(),"line":line,"invocations":cap}));
    }
    evs
}

pub fn gen_c07(asm: &Asm, mach: &mut Mach, rng: &mut Rng, sh: &mut Shards, thorough: bool) {
    let mut n: u64 = 0;
    // a plain REP in front of a comparing instruction, given to the interpreter directly: the body runs exactly CX times
    for op in ["cmps", "scas"] {
        for w in [8u8, 16u8] {
            for df in [0u16, 1] {
                for cx in 0..=6u16 {
                    let ins = Ins::Str { op, w, rep: "rep", repmn: "rep" };
                    let stand_in = Ins::Str { op, w, rep: "repz", repmn: "repe" };
                    let regs = string_regs(rng, cx);
                    let flags = (rng.u16() & !0x0400) | (df << 10);
                    let evs = run_string_direct(asm, mach, &ins, &stand_in, "rep", &regs, flags, (n % 251) as i64, &[]);
                    sh.count("rep-compare-direct", 1);
                    sh.unit(&evs);
                    n += 1;
                }
            }
        }
    }
    let cxmax: u16 = 64;
    // every mnemonic x width x DF x prefix x CX 0..64
    for (op, rep, repmn) in STR_COMBOS {
        for w in [8u8, 16u8] {
            for df in [0u16, 1] {
                let cxs: Vec<u16> = if rep.is_empty() { vec![0, 1, 7, 0xFFFF] } else { (0..=cxmax).collect() };
                for cx in cxs {
                    let variants = if thorough { 4 } else { 1 };
                    for v in 0..variants {
                        let ins = Ins::Str { op, w, rep, repmn };
                        let regs = string_regs(rng, cx);
                        let flags = (rng.u16() & !0x0400) | (df << 10);
                        let seed = ((n / 16) % 251) as i64;
                        n += 1;
                        // memory with runs of equal elements so that REPE/REPNE run for a while
                        let mut memset: Vec<(usize, u8)> = Vec::new();
                        if !rep.is_empty() && (op == "cmps" || op == "scas") && (v % 2 == 0) {
                            let run = rng.below(cx as u64 + 2) as usize;
                            let step: i64 = if df == 1 { -(w as i64 / 8) } else { w as i64 / 8 };
                            let eq = rep == "repz";
                            for j in 0..(cx as usize + 1) {
                                for bb in 0..(w as usize / 8) {
                                    let so = (regs.si as i64 + step * j as i64).rem_euclid(65536) as usize;
                                    let dof = (regs.di as i64 + step * j as i64).rem_euclid(65536) as usize;
                                    let sa = ((regs.ds as usize) * 16 + so + bb) % MB;
                                    let da = ((regs.es as usize) * 16 + dof + bb) % MB;
                                    let acc = if bb == 0 { (regs.ax & 0xFF) as u8 } else { (regs.ax >> 8) as u8 };
                                    let same = (j < run) == eq;
                                    let dv = if same { acc } else { acc.wrapping_add(1 + (j as u8 % 3)) };
                                    memset.push((da, dv));
                                    if op == "cmps" {
                                        memset.push((sa, acc));
                                    }
                                }
                            }
                            // overlapping source/destination may make the pattern inconsistent; that is fine,
                            // the expectation is computed by the specification from the memory as it is
                        }
                        let evs = run_string(asm, mach, &ins, &rand_spelling(rng), &regs, flags, seed, &memset);
                        sh.count(&format!("string:{}:{}:{}", if repmn.is_empty() { "-" } else { repmn }, op, w), 1);
                        sh.count("string-invocations", (evs.len().saturating_sub(1)) as u64);
                        sh.unit(&evs);
                    }
                }
            }
        }
    }
    // source and destination overlapping by -2 .. 2 bytes, with the source element on every position around the end
    // of the 1 MB space and around the end of the segment, both directions, plain and repeated
    for (op, rep, repmn) in [("movs", "", ""), ("movs", "rep", "rep"), ("cmps", "", ""), ("cmps", "repz", "repe")] {
        for w in [8u8, 16u8] {
            for srcpos in [0xFFFFDu32, 0xFFFFE, 0xFFFFF, 0x100000, 0x100001, 0x2FFFE, 0x2FFFF] {
                for dist in [-2i32, -1, 0, 1, 2] {
                    for df in [0u16, 1] {
                        let mut regs = stress_regs(rng);
                        // the source at srcpos through (DS, SI), the destination dist bytes further through (ES, DI)
                        let (ds, si) = if srcpos >= 0xF0000 { (((srcpos - 0xFFF0) / 16) as u16, 0u16) } else { (0x2000u16, (srcpos - 0x20000) as u16) };
                        let si = if srcpos >= 0xF0000 { (srcpos - ds as u32 * 16) as u16 } else { si };
                        regs.ds = ds;
                        regs.si = si;
                        let dstpos = (srcpos as i64 + dist as i64) as u32;
                        let es = if srcpos >= 0xF0000 { *rng.pick(&[ds, ds.wrapping_sub(1), 0xF000u16]) } else { 0x2000 };
                        regs.es = es;
                        regs.di = (dstpos.wrapping_sub(es as u32 * 16) & 0xFFFF) as u16;
                        regs.cx = if rep.is_empty() { rng.u16() } else { 1 + rng.below(3) as u16 };
                        let flags = (rng.u16() & !0x0400) | (df << 10);
                        // distinct bytes around both places
                        let mut memset: Vec<(usize, u8)> = Vec::new();
                        for j in 0..12usize {
                            memset.push((((srcpos as usize) + MB - 6 + j) % MB, 0x10 + j as u8 * 7));
                        }
                        let evs = run_string(asm, mach, &Ins::Str { op, w, rep, repmn }, &rand_spelling(rng), &regs, flags, (n % 251) as i64, &memset);
                        n += 1;
                        sh.count("string-overlap-at-wrap", 1);
                        sh.count("string-invocations", (evs.len().saturating_sub(1)) as u64);
                        sh.unit(&evs);
                    }
                }
            }
        }
    }
    // larger CX sampled
    let big = if thorough { 300 } else { 24 };
    for _ in 0..big {
        let (op, rep, repmn) = *rng.pick(&STR_COMBOS[5..]);
        let w = if rng.chance(1, 2) { 8 } else { 16 };
        let cx = match rng.below(3) { 0 => 65 + rng.below(200) as u16, 1 => 300 + rng.below(700) as u16, _ => *rng.pick(&[255u16, 256, 257, 1000]) };
        let regs = string_regs(rng, cx);
        let evs = run_string(asm, mach, &Ins::Str { op, w, rep, repmn }, &rand_spelling(rng), &regs, rng.u16(), (n % 251) as i64, &[]);
        n += 1;
        sh.count("string-large-cx", 1);
        sh.count("string-invocations", (evs.len().saturating_sub(1)) as u64);
        sh.unit(&evs);
    }
}

// ---------------------------------------------------------------------------------------------
// C09
// ---------------------------------------------------------------------------------------------
/// a random instance of every instruction class the assembler can emit
pub fn rand_any_ins(rng: &mut Rng, k: usize) -> (String, Ins) {
    let w: u8 = if rng.chance(1, 2) { 8 } else { 16 };
    let anymem = |rng: &mut Rng| if rng.chance(1, 5) { rand_label(rng) } else { rand_mem(rng) };
    let dst = |rng: &mut Rng, w: u8| if rng.chance(1, 2) { rand_reg(rng, w) } else { anymem(rng) };
    match k % 24 {
        0 | 1 => {
            let p = *rng.pick(&PAIRS);
            let (d, s) = pair_operands(p, w, true, rng, None);
            let op = *rng.pick(&["add", "adc", "sub", "sbb", "cmp"]);
            (format!("binarith:{}", op), Ins::BinArith { op, w, dst: d, src: s })
        }
        2 => {
            let p = *rng.pick(&PAIRS);
            let (d, s) = pair_operands(p, w, false, rng, None);
            let op = *rng.pick(&["and", "or", "xor", "test"]);
            (format!("logic:{}", op), Ins::Logic { op, w, dst: d, src: s })
        }
        3 => ("not".into(), Ins::Not { w, dst: dst(rng, w) }),
        4 => {
            let op = *rng.pick(&["inc", "dec", "neg"]);
            (format!("unarith:{}", op), Ins::UnArith { op, w, dst: dst(rng, w) })
        }
        5 | 6 | 7 => {
            let op = *rng.pick(&["mul", "imul", "div", "idiv"]);
            (format!("muldiv:{}", op), Ins::UnArith { op, w, dst: dst(rng, w) })
        }
        8 | 9 => {
            let (op, mn) = *rng.pick(&crate::checks::SHIFT_MNS);
            let cnt = if rng.chance(1, 2) { Cnt::Cl } else { Cnt::Imm(*rng.pick(&[0u32, 1, 7, 8, 9, 15, 16, 17, 31, 32, 33, 128, 255])) };
            (format!("shift:{}", mn), Ins::Shift { op, mn, w, dst: dst(rng, w), cnt })
        }
        10 => {
            let op = *rng.pick(&["aaa", "aas", "daa", "das", "aam", "aad", "cbw", "cwd"]);
            (format!("adjust:{}", op), Ins::Adjust { op })
        }
        11 | 12 => {
            let p = *rng.pick(&PAIRS);
            let (d, s) = pair_operands(p, w, true, rng, None);
            ("mov".into(), Ins::Mov { w, dst: d, src: s })
        }
        13 => match rng.below(4) {
            0 => ("mov-sreg".into(), Ins::Mov { w: 16, dst: Opnd::Sreg(*rng.pick(&SREG)), src: if rng.chance(1, 2) { rand_reg16(rng) } else { anymem(rng) } }),
            1 => ("mov-sreg".into(), Ins::Mov { w: 16, dst: dst(rng, 16), src: Opnd::Sreg(*rng.pick(&SREG)) }),
            _ => ("xchg".into(), if rng.chance(1, 2) { Ins::Xchg { w, a: dst(rng, w), b: rand_reg(rng, w) } } else { Ins::Xchg { w, a: rand_reg(rng, w), b: dst(rng, w) } }),
        },
        14 | 15 => {
            let o = match rng.below(4) { 0 => Opnd::Reg16(*rng.pick(&REG16)), 1 => Opnd::Sreg(*rng.pick(&["es", "ss", "ds"])), _ => anymem(rng) };
            if rng.chance(1, 2) { ("push".into(), Ins::Push { src: if rng.chance(1, 8) { Opnd::Sreg("cs") } else { o } }) } else { ("pop".into(), Ins::Pop { dst: o }) }
        }
        16 => {
            let op = *rng.pick(&["lahf", "sahf", "pushf", "popf"]);
            (format!("flagsx:{}", op), Ins::FlagsX { op })
        }
        17 => if rng.chance(1, 2) { ("xlat".into(), Ins::Xlat) } else { ("lea".into(), Ins::Lea { dst: rand_reg16(rng), src: anymem(rng) }) },
        18 => {
            let op = *rng.pick(&["stc", "clc", "cmc", "std", "cld", "sti", "cli", "nop", "hlt"]);
            (format!("ctl:{}", op), Ins::Ctl { op })
        }
        19 => {
            let mn: &'static str = if rng.chance(1, 4) { *rng.pick(&crate::checks::CX_SPELLINGS) } else { *rng.pick(&crate::checks::JCC_SPELLINGS) };
            ("jcc".into(), Ins::Jcc { mn, label: "tgt".into(), target: rng.below(3) as usize })
        }
        20 => match rng.below(3) {
            0 => ("call".into(), Ins::Call { name: "prc".into(), target: rng.below(3) as usize }),
            1 => ("ret".into(), Ins::Ret),
            _ => ("int".into(), Ins::Int { n: *rng.pick(&[3u32, 0x10, 0x21]) }),
        },
        _ => {
            let (op, rep, repmn) = *rng.pick(&STR_COMBOS);
            (format!("string:{}{}", repmn, op), Ins::Str { op, w, rep, repmn })
        }
    }
}

pub fn gen_c09(asm: &Asm, mach: &mut Mach, rng: &mut Rng, sh: &mut Shards, thorough: bool) {
    let total = if thorough { 400_000 } else { 30_000 };
    let mut b = Batch { asm, mach, sh, n: 0 };
    for k in 0..total {
        let (key, ins) = rand_any_ins(rng, k);
        let mut regs = adversarial_regs(rng);
        // divisors 0 / 1 / -1 and counts 0..255 arrive through the lattice; CL gets every count
        if let Ins::Shift { cnt: Cnt::Cl, .. } = ins {
            regs.set("cl", rng.below(256) as u16);
        }
        let flags = match rng.below(4) { 0 => 0, 1 => 0xFFFF, _ => rng.u16() };
        let stack: Vec<usize> = if matches!(ins, Ins::Ret) && rng.chance(2, 3) { vec![rng.below(5) as usize] } else { vec![] };
        b.one(&format!("c09:{}", key), &ins, &Spelling::default(), &regs, flags, &stack);
    }
}

// ---------------------------------------------------------------------------------------------
// C10 / C11: the grammar's shape set (enumerated by TLC) through the real assembler and the
// downstream parsers, under several spellings
// ---------------------------------------------------------------------------------------------
/// the same instruction with every negative immediate source written as the unsigned constant of the same bit pattern
fn unsigned_imm(ins: &Ins) -> Ins {
    let fix = |w: u8, o: &Opnd| -> Opnd {
        match o {
            Opnd::Imm(v) if *v < 0 => Opnd::Imm(if w == 8 { *v & 0xFF } else { *v & 0xFFFF }),
            _ => o.clone(),
        }
    };
    match ins {
        Ins::BinArith { op, w, dst, src } => Ins::BinArith { op, w: *w, dst: dst.clone(), src: fix(*w, src) },
        Ins::Logic { op, w, dst, src } => Ins::Logic { op, w: *w, dst: dst.clone(), src: fix(*w, src) },
        Ins::Mov { w, dst, src } => Ins::Mov { w: *w, dst: dst.clone(), src: fix(*w, src) },
        _ => ins.clone(),
    }
}

pub fn gen_shapes(asm: &Asm, mach: &mut Mach, rng: &mut Rng, sh: &mut Shards, path: &str, thorough: bool) {
    let text = std::fs::read_to_string(path).expect("shape file");
    let spellings: Vec<Spelling> = vec![
        Spelling { case: Case::Lower, radix: Radix::Dec, wide: false, nl: false },
        Spelling { case: Case::Upper, radix: Radix::Hex, wide: true, nl: false },
        Spelling { case: Case::Lower, radix: Radix::Bin, wide: true, nl: true },
        Spelling { case: Case::Upper, radix: Radix::Dec, wide: false, nl: false },
    ];
    let mut n: u64 = 0;
    for line in text.lines() {
        if line.trim().is_empty() {
            continue;
        }
        let j: Value = serde_json::from_str(line).expect("shape json");
        let ins = ins_from_json(&j);
        let cls = j["cls"].as_str().unwrap_or("?").to_string();
        let mut emitted: Vec<Option<Vec<String>>> = Vec::new();
        let nsp = if thorough { 4 } else { 3 };
        for (si, sp) in spellings.iter().take(nsp).enumerate() {
            // the first spelling of every pair is fixed, the others vary with the shape number
            let mut sp = *sp;
            // (every other shape writes the zero-padded constants of the second spelling in decimal)
            if si == 1 && n % 2 == 1 { sp.radix = Radix::Dec; }
            let _ = si;
            let regs = stress_regs(rng);
            let flags = rng.u16();
            let seed = ((n / 32) % 251) as i64;
            let stack: Vec<usize> = if matches!(ins, Ins::Ret) { vec![2] } else { vec![] };
            // C11: a negative decimal and the unsigned constant with the same bit pattern are the same constant: the second
            // rendering writes every negative immediate as its unsigned equivalent (in the radix of that spelling)
            let ins_sp = if si == 1 { unsigned_imm(&ins) } else { ins.clone() };
            let ins = &ins_sp;
            let evs = run_one(asm, mach, ins, &sp, &regs, flags, seed, &[], &stack);
            // what was emitted for this rendering, and the data lines through the real loader
            match assemble_ins(asm, ins, &sp) {
                Ok((a, _, src)) => {
                    let mut vm = emulator_8086_lib::VM::new();
                    if let Err(e) = load_data(&mut vm, &a.out.data) {
                        sh.unit(&[json!({"ev":"downstream","kind":"data","src":src,"err":e,"lines":a.out.data})]);
                    }
                    emitted.push(Some(a.out.code.clone()));
                }
                Err(_) => emitted.push(None),
            }
            sh.count(&format!("shape:{}", cls), 1);
            sh.unit(&evs);
        }
        // every accepted rendering of one shape must emit the same instruction list
        let acc: Vec<&Vec<String>> = emitted.iter().flatten().collect();
        if acc.len() >= 2 {
            let same = acc.iter().all(|x| *x == acc[0]);
            sh.count("spelling-pairs", 1);
            sh.unit(&[json!({"ev":"spelling","same":same,"ast":j,"lists":acc})]);
        }
        if emitted.iter().any(|x| x.is_none()) && emitted.iter().any(|x| x.is_some()) {
            // accepted under one spelling, refused under another
            sh.unit(&[json!({"ev":"spelling","same":false,"ast":j,"lists":emitted.iter().map(|x| x.clone().unwrap_or_default()).collect::<Vec<_>>()})]);
        }
        n += 1;
    }
    sh.count("shapes", n);
    // names: every kind of name the grammar describes (letters, digits, underscores, either case, long) must work in
    // every role; a name with characters outside that alphabet may be refused, but if it is accepted it must run
    let plain = ["_", "_1", "a_b9", "Z", "l0ng_Name_With_Digits_0123456789_and_more", "x"];
    let exotic = ["f\u{ed}n", "a\u{f1}adir", "l\u{663}", "gr\u{f6}\u{df}e", "na\u{ef}ve_1", "q\u{2160}", "k\u{a0}"];
    for (names, may_refuse) in [(&plain[..], false), (&exotic[..], true)] {
        for name in names {
            let cases: Vec<Ins> = vec![
                Ins::Jcc { mn: "jmp", label: name.to_string(), target: 1 },
                Ins::Jcc { mn: "loop", label: name.to_string(), target: 0 },
                Ins::Call { name: name.to_string(), target: 0 },
                Ins::Mov { w: 8, dst: Opnd::Reg8("al"), src: Opnd::Label { name: name.to_string(), off: 4 } },
                Ins::UnArith { op: "inc", w: 16, dst: Opnd::Label { name: name.to_string(), off: 6 } },
                Ins::Mov { w: 16, dst: Opnd::Reg16("bx"), src: Opnd::Offset { name: name.to_string(), off: 6 } },
            ];
            for ins in cases {
                let sp = Spelling::default();
                if may_refuse && assemble_ins(asm, &ins, &sp).is_err() {
                    sh.count("exotic-name-refused", 1);
                    continue;
                }
                let regs = stress_regs(rng);
                let stack: Vec<usize> = Vec::new();
                let evs = run_one(asm, mach, &ins, &sp, &regs, rng.u16(), (n % 251) as i64, &[], &stack);
                sh.count(if may_refuse { "exotic-name-accepted" } else { "name" }, 1);
                sh.unit(&evs);
            }
        }
    }
    // string definitions with every kind of character between the quotes (control characters, TAB, DEL, non-ASCII,
    // a backslash, an apostrophe, a quote): the assembler may refuse such a string, but a string it accepts must be
    // taken by the data loader as well, and the bytes loaded must be the bytes written
    let specials: Vec<String> = (1u8..32).filter(|c| *c != 10 && *c != 13).map(|c| (c as char).to_string())
        .chain(["\u{7f}", "\\", "'", "\"", "`", "\u{e9}", "\u{20ac}", "\u{a0}", "\r", "%", "{", "}", "<-", "->", ":", ","].iter().map(|s| s.to_string())).collect();
    for sp in &specials {
        for dir in ["db", "dw", "DB", "DW"] {
            for shape in 0..3 {
                let content = match shape { 0 => format!("a{}b", sp), 1 => sp.to_string(), _ => format!("{}xy{}", sp, sp) };
                let src = format!("vdat: {} \"{}\"\nstart:\nnop\n", dir, content);
                let r = std::panic::catch_unwind(std::panic::AssertUnwindSafe(|| asm.assemble(&src)));
                match r {
                    Ok(Ok(a)) => {
                        let mut vm = emulator_8086_lib::VM::new();
                        match load_data(&mut vm, &a.out.data) {
                            Err(e) => sh.unit(&[json!({"ev":"downstream","kind":"data","src":src,"err":e,"lines":a.out.data})]),
                            Ok(_) => {
                                let want: Vec<u8> = if dir.eq_ignore_ascii_case("db") { content.bytes().collect() } else { content.bytes().flat_map(|b| [b, 0u8]).collect() };
                                let got: Vec<u8> = vm.mem[..want.len()].to_vec();
                                if got != want {
                                    sh.unit(&[json!({"ev":"downstream","kind":"data","src":src,"err":format!("bytes loaded {:?}, bytes written {:?}", got, want),"lines":a.out.data})]);
                                }
                            }
                        }
                        sh.count("string-content-accepted", 1);
                    }
                    Ok(Err(_)) => sh.count("string-content-refused", 1),
                    Err(_) => sh.unit(&[json!({"ev":"downstream","kind":"data","src":src,"err":"PANIC in the assembler","lines":[]})]),
                }
            }
        }
    }
}

// ---------------------------------------------------------------------------------------------
// C13: macro libraries (built and expanded by TLC, spec/MC_Macro.tla) against the real assembler
// ---------------------------------------------------------------------------------------------
fn toks(v: &Value) -> String {
    v.as_array().unwrap().iter().map(|t| t.as_str().unwrap().to_string()).collect::<Vec<_>>().join(" ")
}

fn unit_src(u: &Value) -> String {
    if u["k"] == "ins" {
        toks(&u["toks"])
    } else {
        let args: Vec<String> = u["args"].as_array().unwrap().iter().map(toks).collect();
        format!("{} ({})", u["name"].as_str().unwrap(), args.join(", "))
    }
}

/// one macro case -> its event (runs in the child process: an expansion that never ends overflows the stack)
fn macro_case_event(asm: &Asm, j: &Value) -> Value {
    let header = "t:\ntt:\nttt:\n";
    let mut src = String::from(header);
    for m in j["lib"].as_array().unwrap() {
        let params: Vec<String> = m["params"].as_array().unwrap().iter().map(|p| p.as_str().unwrap().to_string()).collect();
        let body: Vec<String> = m["body"].as_array().unwrap().iter().map(unit_src).collect();
        src.push_str(&format!("macro {}({}) -> {} <-\n", m["name"].as_str().unwrap(), params.join(", "), body.join(" ")));
    }
    let uargs: Vec<String> = j["use"]["args"].as_array().unwrap().iter().map(toks).collect();
    let use_text = format!("{}({})", j["use"]["name"].as_str().unwrap(), uargs.join(", "));
    // `times` sibling uses at top level: each stands for its own copy of the expansion (the set of macros being expanded is
    // empty again after every use -- seeded change C13-q left the name of an empty-bodied macro in it)
    let times = j["times"].as_u64().unwrap_or(1);
    src.push_str("start:\n");
    for _ in 0..times {
        src.push_str(&use_text);
        src.push_str("\nnop\n");
    }
    let mut reference = String::from(header);
    reference.push_str("start:\n");
    for _ in 0..times {
        for ins in j["code"].as_array().unwrap() {
            reference.push_str(&toks(ins));
            reference.push('\n');
        }
        reference.push_str("nop\n");
    }
    let a = asm.assemble(&src);
    let b = asm.assemble(&reference);
    let (macro_ok, macro_code, macro_err) = match &a { Ok(x) => (true, x.out.code.clone(), String::new()), Err(e) => (false, vec![], e.chars().take(200).collect()) };
    let (ref_ok, ref_code) = match &b { Ok(x) => (true, x.out.code.clone()), Err(_) => (false, vec![]) };
    let err = j["err"].as_str().unwrap_or("");
    json!({"ev":"macro","err":err,"macro_ok":macro_ok,"ref_ok":ref_ok,"same":macro_code == ref_code,
           "src":src,"macro_code":macro_code,"ref_code":ref_code,"diag":macro_err,"aborted":false})
}

/// child: `vh macros <cases> <out> <from>` appends one event per case, flushing after each
pub fn macros_child(cases: &str, out: &str, from: usize) {
    use std::io::Write;
    let asm = Asm::new();
    let text = std::fs::read_to_string(cases).expect("macro case file");
    let mut f = std::fs::OpenOptions::new().create(true).append(true).open(out).unwrap();
    for line in text.lines().filter(|l| !l.trim().is_empty()).skip(from) {
        let j: Value = serde_json::from_str(line).expect("macro case json");
        let ev = macro_case_event(&asm, &j);
        writeln!(f, "{}", ev).unwrap();
        f.flush().unwrap();
    }
}

pub fn gen_macros(_asm: &Asm, sh: &mut Shards, path: &str, workdir: &str) {
    let exe = std::env::current_exe().unwrap();
    let outp = format!("{}/macro_events.ndjson", workdir);
    let _ = std::fs::remove_file(&outp);
    let mut cases: Vec<String> = std::fs::read_to_string(path).expect("macro case file").lines().filter(|l| !l.trim().is_empty()).map(|l| l.to_string()).collect();
    // every third accepted case of the model's libraries is used twice in a row
    for (k, c) in cases.iter_mut().enumerate() {
        if k % 3 == 1 {
            if let Ok(mut j) = serde_json::from_str::<Value>(c) {
                if j["err"].as_str().unwrap_or("") == "" {
                    j["times"] = json!(2);
                    *c = j.to_string();
                }
            }
        }
    }
    // macros whose body is empty (or expands to nothing): used once, twice, three times in a row; twice from inside another
    // macro; next to a macro that is not empty
    for times in 1..=3u64 {
        cases.push(json!({"lib":[{"name":"nothing","params":["_"],"body":[]}],"use":{"name":"nothing","args":[["_"]]},"err":"","code":[],"times":times}).to_string());
        cases.push(json!({"lib":[{"name":"nothing","params":["a"],"body":[]},{"name":"pair","params":["r"],"body":[{"k":"use","name":"nothing","args":[["r"]]},{"k":"ins","toks":["inc","r"]},{"k":"use","name":"nothing","args":[["r"]]}]}],
                          "use":{"name":"pair","args":[["bx"]]},"err":"","code":[["inc","bx"]],"times":times}).to_string());
        cases.push(json!({"lib":[{"name":"nothing","params":["a"],"body":[]},{"name":"hollow","params":["r"],"body":[{"k":"use","name":"nothing","args":[["r"]]},{"k":"use","name":"nothing","args":[["r"]]}]}],
                          "use":{"name":"hollow","args":[["cx"]]},"err":"","code":[],"times":times}).to_string());
    }
    // macros without parameters: used once .. three times, from inside another macro, and holding a use themselves
    for times in 1..=3u64 {
        cases.push(json!({"lib":[{"name":"bare","params":[],"body":[{"k":"ins","toks":["inc","ax"]}]}],"use":{"name":"bare","args":[]},"err":"","code":[["inc","ax"]],"times":times}).to_string());
        cases.push(json!({"lib":[{"name":"bare","params":[],"body":[{"k":"ins","toks":["inc","ax"]}]},{"name":"outer","params":["r"],"body":[{"k":"use","name":"bare","args":[]},{"k":"ins","toks":["inc","r"]},{"k":"use","name":"bare","args":[]}]}],
                          "use":{"name":"outer","args":[["dx"]]},"err":"","code":[["inc","ax"],["inc","dx"],["inc","ax"]],"times":times}).to_string());
        cases.push(json!({"lib":[{"name":"leaf","params":["q"],"body":[{"k":"ins","toks":["inc","q"]}]},{"name":"bare2","params":[],"body":[{"k":"use","name":"leaf","args":[["si"]]},{"k":"use","name":"leaf","args":[["di"]]}]}],
                          "use":{"name":"bare2","args":[]},"err":"","code":[["inc","si"],["inc","di"]],"times":times}).to_string());
    }
    // macros with 1 .. 14 parameters (names that are prefixes of each other: p1 / p10 / p11), every parameter used, in
    // source order and in reverse; the reference is the body written out by hand
    for n in 1..=14usize {
        for rev in [false, true] {
            let params: Vec<String> = (0..n).map(|i| format!("p{}", i)).collect();
            let order: Vec<usize> = if rev { (0..n).rev().collect() } else { (0..n).collect() };
            let body: Vec<Value> = order.iter().map(|i| json!({"k":"ins","toks":["mov", if i % 2 == 0 { "ax" } else { "dx" }, ",", format!("p{}", i)]})).collect();
            let args: Vec<Value> = (0..n).map(|i| json!([format!("{}", 100 + i * 7)])).collect();
            let code: Vec<Value> = order.iter().map(|i| json!(["mov", if i % 2 == 0 { "ax" } else { "dx" }, ",", format!("{}", 100 + i * 7)])).collect();
            cases.push(json!({"lib":[{"name":"many","params":params,"body":body}],"use":{"name":"many","args":args},"err":"","code":code}).to_string());
        }
    }
    // parameter names of every shape the grammar allows for an identifier (a lone underscore, leading / trailing
    // underscores, digits, upper case, long), in every position of a three-parameter macro, each parameter used
    for special in ["_", "__", "_1", "x_", "Q", "lOnG_name_9_", "a"] {
        for pos in 0..3usize {
            for rev in [false, true] {
                let mut params: Vec<String> = vec!["first".into(), "snd".into(), "third".into()];
                params[pos] = special.to_string();
                let order: Vec<usize> = if rev { vec![2, 1, 0] } else { vec![0, 1, 2] };
                let regs = ["ax", "cx", "dx"];
                let body: Vec<Value> = order.iter().map(|i| json!({"k":"ins","toks":["mov", regs[*i], ",", params[*i]]})).collect();
                let args: Vec<Value> = (0..3).map(|i| json!([format!("{}", 300 + i * 11)])).collect();
                let code: Vec<Value> = order.iter().map(|i| json!(["mov", regs[*i], ",", format!("{}", 300 + i * 11)])).collect();
                cases.push(json!({"lib":[{"name":"named","params":params,"body":body}],"use":{"name":"named","args":args},"err":"","code":code}).to_string());
            }
        }
        // (names are case-sensitive: a parameter and a body word, or two parameters, that differ only in letter case)
        if special == "Q" {
            cases.push(json!({"lib":[{"name":"cp","params":["x","X"],"body":[{"k":"ins","toks":["mov","x",",","X"]}]}],"use":{"name":"cp","args":[["ax"],["bx"]]},"err":"","code":[["mov","ax",",","bx"]]}).to_string());
            cases.push(json!({"lib":[{"name":"cq","params":["Val","val","VAL"],"body":[{"k":"ins","toks":["mov","ax",",","val"]},{"k":"ins","toks":["mov","cx",",","VAL"]},{"k":"ins","toks":["mov","dx",",","Val"]}]}],"use":{"name":"cq","args":[["1"],["2"],["3"]]},"err":"","code":[["mov","ax",",","2"],["mov","cx",",","3"],["mov","dx",",","1"]]}).to_string());
            cases.push(json!({"lib":[{"name":"cr","params":["T"],"body":[{"k":"ins","toks":["mov","ax",",","T"]},{"k":"ins","toks":["jmp","t"]}]}],"use":{"name":"cr","args":[["5"]]},"err":"","code":[["mov","ax",",","5"],["jmp","t"]]}).to_string());
        }
        // the parameter as a jump target and as a register
        cases.push(json!({"lib":[{"name":"go","params":[special],"body":[{"k":"ins","toks":["inc", special]}]}],"use":{"name":"go","args":[["bx"]]},"err":"","code":[["inc","bx"]]}).to_string());
    }
    let path_all = format!("{}/macro_cases_all.ndjson", workdir);
    std::fs::write(&path_all, cases.join("\n") + "\n").unwrap();
    let path: &str = &path_all;
    let done = |p: &str| std::fs::read_to_string(p).map(|s| s.lines().count()).unwrap_or(0);
    let mut from = 0usize;
    while from < cases.len() {
        let mut child = std::process::Command::new(&exe).arg("macros").arg(path).arg(&outp).arg(from.to_string())
            .stdout(std::process::Stdio::null()).stderr(std::process::Stdio::null()).spawn().unwrap();
        // watchdog: a case that makes no progress for 30 s is a hang
        let mut last = done(&outp);
        let mut last_t = std::time::Instant::now();
        let mut hung = false;
        let status = loop {
            match child.try_wait() {
                Ok(Some(st)) => break st.code().unwrap_or(-1),
                Ok(None) => {
                    let n = done(&outp);
                    if n != last { last = n; last_t = std::time::Instant::now(); }
                    if last_t.elapsed() > std::time::Duration::from_secs(30) {
                        hung = true;
                        let _ = child.kill();
                        let _ = child.wait();
                        break -2;
                    }
                    std::thread::sleep(std::time::Duration::from_millis(20));
                }
                Err(_) => break -3,
            }
        };
        let n = done(&outp);
        if n >= cases.len() {
            break;
        }
        // the child died on case number n: record that and go on with the next one
        let j: Value = serde_json::from_str(&cases[n]).unwrap();
        let ev = json!({"ev":"macro","err":j["err"],"macro_ok":false,"ref_ok":false,"same":false,"src":"","macro_code":[],"ref_code":[],
                        "diag":format!("child process {} on this case (exit status {})", if hung { "hung" } else { "aborted" }, status),"aborted":true,"case":j});
        use std::io::Write;
        let mut f = std::fs::OpenOptions::new().create(true).append(true).open(&outp).unwrap();
        writeln!(f, "{}", ev).unwrap();
        from = n + 1;
    }
    for line in std::fs::read_to_string(&outp).unwrap_or_default().lines() {
        let ev: Value = serde_json::from_str(line).unwrap();
        let err = ev["err"].as_str().unwrap_or("").to_string();
        sh.count(&format!("macro-case:{}", if err.is_empty() { "expands" } else { &err }), 1);
        sh.unit(&[ev]);
    }
    let _ = std::fs::remove_file(&outp);
}

/// a chain of `depth` macros, each using the next; run in a child process (`vh chain N`) because a
/// stack overflow aborts the process
pub fn chain_source(depth: usize) -> (String, String) {
    let mut s = String::new();
    for i in 0..depth {
        if i + 1 < depth {
            s.push_str(&format!("macro ch{}(r, v) -> ch{} (r, v) <-\n", i, i + 1));
        } else {
            s.push_str(&format!("macro ch{}(r, v) -> mov r, v inc r <-\n", i));
        }
    }
    s.push_str("start:\nch0(bx, 41)\n");
    (s, "start:\nmov bx, 41\ninc bx\n".to_string())
}

pub fn chain_child(depth: usize) {
    let asm = Asm::new();
    let (s, r) = chain_source(depth);
    let a = asm.assemble(&s);
    let b = asm.assemble(&r);
    match (a, b) {
        (Ok(x), Ok(y)) => {
            println!("{}", json!({"ok": true, "same": x.out.code == y.out.code}));
        }
        (Err(e), _) => println!("{}", json!({"ok": false, "err": e.chars().take(200).collect::<String>(), "deep": e.contains("Macros nested deeper than")})),
        (_, Err(e)) => println!("{}", json!({"ok": false, "err": format!("reference refused: {}", e)})),
    }
}

pub fn gen_chains(sh: &mut Shards, depths: &[usize]) {
    let exe = std::env::current_exe().unwrap();
    for d in depths {
        let t0 = std::time::Instant::now();
        let mut child = std::process::Command::new(&exe).arg("chain").arg(d.to_string()).stdout(std::process::Stdio::piped()).stderr(std::process::Stdio::null()).spawn().unwrap();
        let mut timeout = false;
        let status = loop {
            match child.try_wait() {
                Ok(Some(st)) => break st.code().unwrap_or(-1),
                Ok(None) => {
                    if t0.elapsed() > std::time::Duration::from_secs(120) {
                        timeout = true;
                        let _ = child.kill();
                        let _ = child.wait();
                        break -2;
                    }
                    std::thread::sleep(std::time::Duration::from_millis(5));
                }
                Err(_) => break -3,
            }
        };
        let mut out = String::new();
        if let Some(mut so) = child.stdout.take() {
            use std::io::Read;
            let _ = so.read_to_string(&mut out);
        }
        let res: Value = serde_json::from_str(out.trim()).unwrap_or(json!({}));
        sh.count("macro-chains", 1);
        sh.unit(&[json!({"ev":"chain","depth":d,"status":status,"timeout":timeout,"ok":res.get("ok").and_then(|x| x.as_bool()).unwrap_or(false),
                         "same":res.get("same").and_then(|x| x.as_bool()).unwrap_or(false),"err":res.get("err").cloned().unwrap_or(json!("")),"deep":res.get("deep").and_then(|x| x.as_bool()).unwrap_or(false),"ms":t0.elapsed().as_millis() as u64})]);
    }
}

// ---------------------------------------------------------------------------------------------
// C19: machines and parser objects do not leak state
// ---------------------------------------------------------------------------------------------
const GARBAGE: [&str; 8] = ["mov ax", "???", "add al, word [bx]", "jmp", "", "mov ax,, 1", "print nothing", "call 5"];

/// (line, ast json, idx, context) for one abstract instruction; "invalid" = a line no grammar accepts
fn line_for(asm: &Asm, v: &Value, k: usize) -> (String, Value, usize, emulator_8086_lib::InterpreterContext) {
    if v["cls"] == "invalid" {
        let ctx = emulator_8086_lib::InterpreterContext::default();
        return (GARBAGE[k % GARBAGE.len()].to_string(), json!({"cls":"invalid"}), 0, ctx);
    }
    let ins = ins_from_json(v);
    let (a, idx, _src) = assemble_ins(asm, &ins, &Spelling::default()).expect("stream instruction must assemble");
    (a.out.code[idx].clone(), ins.to_json(), idx, a.ictx)
}

fn stream_regs(which: usize) -> (Regs, u16, i64) {
    if which == 0 {
        (Regs { ax: 4660, bx: 7, cx: 0, dx: 0, sp: 256, bp: 0, si: 0, di: 8, ip: 0, cs: 0, ds: 0, ss: 16, es: 32 }, 2, 5)
    } else {
        (Regs { ax: 65535, bx: 65534, cx: 0, dx: 0, sp: 0, bp: 0, si: 0, di: 65535, ip: 0, cs: 0, ds: 0, ss: 4096, es: 65535 }, 65535, 9)
    }
}

fn step_event(o: StepObs, vm: usize, ast: &Value, idx: usize, line: &str) -> Value {
    let mut ev = o.to_json();
    ev["ev"] = json!("step");
    ev["vm"] = json!(vm);
    ev["ast"] = ast.clone();
    ev["idx"] = json!(idx);
    ev["line"] = json!(line);
    ev["src"] = json!("");
    ev
}

pub fn gen_c19(asm: &Asm, rng: &mut Rng, sh: &mut Shards, path: &str, thorough: bool) {
    // a freshly created machine
    for k in 0..4 {
        // (a machine is a machine however it is made: VM::new() and the Default trait)
        let vm = if k % 2 == 0 { emulator_8086_lib::VM::new() } else { Default::default() };
        let nz = vm.mem.iter().filter(|b| **b != 0).count();
        sh.count("newvm", 1);
        sh.unit(&[json!({"ev":"newvm","regs":read_regs(&vm).to_json(),"flags":vm.arch.flag,"nonzero":nz})]);
    }
    // interleavings enumerated by TLC: two machines, ONE interpreter object; then each stream alone on fresh objects
    let shared = emulator_8086_lib::Interpreter::new();
    let mut ma = Mach::new();
    let mut mb = Mach::new();
    let text = std::fs::read_to_string(path).expect("schedule file");
    for (n, line) in text.lines().enumerate() {
        if line.trim().is_empty() {
            continue;
        }
        let j: Value = serde_json::from_str(line).expect("schedule json");
        let streams = [j["sa"].as_array().unwrap().clone(), j["sb"].as_array().unwrap().clone()];
        let mut lines: Vec<Vec<(String, Value, usize, emulator_8086_lib::InterpreterContext)>> = Vec::new();
        for (w, s) in streams.iter().enumerate() {
            lines.push(s.iter().enumerate().map(|(k, v)| line_for(asm, v, k + w + n)).collect());
        }
        let mut evs: Vec<Value> = Vec::new();
        let (ra, fa, sa) = stream_regs(0);
        let (rb, fb, sb) = stream_regs(1);
        let mut e0 = ma.reset(&ra, fa, sa, &[], &[]);
        e0["vm"] = json!(0);
        evs.push(e0);
        let mut e1 = mb.reset(&rb, fb, sb, &[], &[]);
        e1["vm"] = json!(1);
        evs.push(e1);
        let mut pos = [0usize, 0usize];
        for w in j["schedule"].as_array().unwrap() {
            let w = w.as_u64().unwrap() as usize;
            let (ref l, ref ast, idx, ref mut ctx) = lines[w][pos[w]];
            let m = if w == 0 { &mut ma } else { &mut mb };
            let o = m.step_shared(&shared, idx, ctx, l);
            evs.push(step_event(o, w, ast, idx, l));
            pos[w] += 1;
        }
        sh.count("interleavings", 1);
        sh.count("interleaved-steps", (evs.len() - 2) as u64);
        sh.unit(&evs);
        // solo runs on fresh objects (only for a sample: a fresh parser costs ~5 ms)
        if n % (if thorough { 4 } else { 24 }) == 0 {
            for w in 0..2 {
                let fresh = emulator_8086_lib::Interpreter::new();
                let mut m = Mach::new();
                let (r, f, s) = stream_regs(w);
                let mut evs = vec![m.reset(&r, f, s, &[], &[])];
                for (k, v) in streams[w].iter().enumerate() {
                    let (l, ast, idx, mut ctx) = line_for(asm, v, k + w + n);
                    let o = m.step_shared(&fresh, idx, &mut ctx, &l);
                    evs.push(step_event(o, 0, &ast, idx, &l));
                }
                sh.count("solo-runs-on-fresh-objects", 1);
                sh.unit(&evs);
            }
        }
    }
    // a long-lived parser fed valid and invalid lines in random order: every valid line still means the same
    let nseq = if thorough { 400 } else { 60 };
    for _ in 0..nseq {
        let regs = stress_regs(rng);
        let mut evs = vec![ma.reset(&regs, rng.u16(), (rng.below(200)) as i64, &[], &[])];
        let len = 4 + rng.below(12) as usize;
        for k in 0..len {
            if rng.chance(1, 3) {
                let l = GARBAGE[rng.below(GARBAGE.len() as u64) as usize];
                let mut ctx = emulator_8086_lib::InterpreterContext::default();
                let o = ma.step_shared(&shared, 0, &mut ctx, l);
                evs.push(step_event(o, 0, &json!({"cls":"invalid"}), 0, l));
            } else {
                let kk = rng.below(19) as usize;
                let (_, ins) = rand_any_ins(rng, kk);
                if matches!(ins, Ins::Call { .. } | Ins::Ret | Ins::Jcc { .. }) {
                    continue;
                }
                if let Ok((mut a, idx, _)) = assemble_ins(asm, &ins, &Spelling::default()) {
                    let line = a.out.code[idx].clone();
                    let o = ma.step_shared(&shared, idx, &mut a.ictx, &line);
                    evs.push(step_event(o, 0, &ins.to_json(), idx, &line));
                }
            }
            let _ = k;
        }
        sh.count("mixed-valid-invalid-sequences", 1);
        sh.unit(&evs);
    }
    // a preprocessor object and a context / output pair reused after clear() answer like fresh ones
    {
        use emulator_8086_lib::{Preprocessor, PreprocessorContext, PreprocessorOutput};
        let pre = Preprocessor::new();
        let mut ctx = PreprocessorContext::default();
        let mut out = PreprocessorOutput::default();
        // every program that fails (each kind of failure) is followed by a valid one that uses the same names
        let sources: Vec<String> = vec![
            "x: db 5\ny: dw [3 , 4]\nstart:\nmov ax, word y\njmp l\nl: hlt\n".to_string(),
            "macro m(a) -> inc a <-\ndef f {\ninc bx\n}\nstart:\nm(ax)\ncall f\njmp nowhere\n".to_string(),
            "start:\nmov ax,\n".to_string(),
            "z: db \"hi\"\nstart:\nmov al, byte z\nprint reg\n".to_string(),
            "start:\nm(ax)\n".to_string(),
            "x: dw 7\nstart:\nmov bx, offset x\ncall f\n".to_string(),
            chain_source(129).0,
            "macro ch128(r, v) -> mov r, v <-\nmacro ch0(r, v) -> ch128 (r, v) <-\nstart:\nch0(ax, 3)\nch128(bx, 4)\n".to_string(),
            "macro r(a) -> r(a) <-\nstart:\nr(ax)\n".to_string(),
            "macro r(a) -> inc a <-\nstart:\nr(ax)\n".to_string(),
            "macro w(a) -> mov a <-\nmacro v(a) -> w(a) <-\nstart:\nv(ax)\n".to_string(),
            "macro w(a) -> inc a <-\nmacro v(a) -> w(a) <-\nstart:\nv(ax)\n".to_string(),
            "def f {\ninc ax\n}\ndef f {\ninc bx\n}\nstart:\ncall f\n".to_string(),
            "def f {\ninc ax\n}\nstart:\ncall f\n".to_string(),
            "a: db [65535]\nb: db [5]\nstart:\nhlt\n".to_string(),
            "a: db 1\nb: db 2\nstart:\nmov al, byte b\n".to_string(),
            "start:\nmov ax, 1\nstart:\nhlt\n".to_string(),
            "start:\nmov ax, 1\nhlt\n".to_string(),
        ];
        let fingerprint = |r: bool, c: &PreprocessorContext, o: &PreprocessorOutput| -> String {
            let mut labels: Vec<String> = c.label_map.iter().map(|(k, v)| format!("{}={}:{:?}", k, v.map, v.get_type())).collect();
            labels.sort();
            let mut fns: Vec<String> = c.fn_map.iter().map(|(k, v)| format!("{}={}", k, v)).collect();
            fns.sort();
            let mut und: Vec<String> = c.undefined_labels.iter().map(|(p, n)| format!("{}@{}", n, p)).collect();
            und.sort();
            format!("{}|{:?}|{:?}|{:?}|{:?}|{:?}", r, o.data, o.code, labels, fns, und)
        };
        for round in 0..(if thorough { 40 } else { 8 }) {
            for (k, s) in sources.iter().enumerate() {
                let src: &str = &sources[(k + round) % sources.len()];
                let _ = s;
                ctx.clear();
                out.clear();
                let reused = std::panic::catch_unwind(std::panic::AssertUnwindSafe(|| pre.parse(&mut ctx, &mut out, src).is_ok())).unwrap_or(false);
                let fp_reused = fingerprint(reused, &ctx, &out);
                let fresh_pre = Preprocessor::new();
                let mut c2 = PreprocessorContext::default();
                let mut o2 = PreprocessorOutput::default();
                let fresh = std::panic::catch_unwind(std::panic::AssertUnwindSafe(|| fresh_pre.parse(&mut c2, &mut o2, src).is_ok())).unwrap_or(false);
                let fp_fresh = fingerprint(fresh, &c2, &o2);
                sh.count("preprocessor-reuse", 1);
                sh.unit(&[json!({"ev":"repeat","runs":2,"identical":fp_reused == fp_fresh,"what":format!("reused preprocessor/context after clear() vs fresh on source #{}: {} vs {}", (k + round) % sources.len(), fp_reused.chars().take(150).collect::<String>(), fp_fresh.chars().take(150).collect::<String>())})]);
            }
        }
        // the source map (instruction -> source position) of a cleared context: the map can only be taken out of the
        // context by consuming it, so every ordered pair (A, B) gets a context of its own: A, clear(), B, take the map
        let srcmap = |c: PreprocessorContext| -> String {
            let mut v: Vec<(usize, usize)> = c.mapper.get_source_map().into_iter().collect();
            v.sort();
            format!("{:?}", v)
        };
        for (ia, a) in sources.iter().enumerate() {
            for (ib, b) in sources.iter().enumerate() {
                if !thorough && (ia * 7 + ib) % 3 != 0 { continue; }
                let pre2 = Preprocessor::new();
                let mut c1 = PreprocessorContext::default();
                let mut o1 = PreprocessorOutput::default();
                let _ = std::panic::catch_unwind(std::panic::AssertUnwindSafe(|| pre2.parse(&mut c1, &mut o1, a).is_ok()));
                c1.clear();
                o1.clear();
                let r1 = std::panic::catch_unwind(std::panic::AssertUnwindSafe(|| pre2.parse(&mut c1, &mut o1, b).is_ok())).unwrap_or(false);
                let mut c2 = PreprocessorContext::default();
                let mut o2 = PreprocessorOutput::default();
                let r2 = std::panic::catch_unwind(std::panic::AssertUnwindSafe(|| Preprocessor::new().parse(&mut c2, &mut o2, b).is_ok())).unwrap_or(false);
                let (m1, m2) = (srcmap(c1), srcmap(c2));
                sh.count("context-reuse-source-map", 1);
                sh.unit(&[json!({"ev":"repeat","runs":2,"identical": r1 == r2 && m1 == m2,"what":format!("source map of a cleared context (after source #{}) vs a fresh one on source #{}: {} vs {}", ia, ib, m1.chars().take(150).collect::<String>(), m2.chars().take(150).collect::<String>())})]);
            }
        }
    }
    // concurrent threads: private machines, one shared interpreter object
    let nthreads = 8;
    let per = if thorough { 600 } else { 120 };
    let seeds: Vec<u64> = (0..nthreads).map(|_| rng.next()).collect();
    let shared_ref = &shared;
    let results: Vec<Vec<Value>> = std::thread::scope(|s| {
        let hs: Vec<_> = seeds.iter().map(|sd| {
            let sd = *sd;
            s.spawn(move || {
                let asm = Asm::new();
                let mut rng = Rng(sd);
                let mut m = Mach::new();
                let regs = stress_regs(&mut rng);
                let mut evs = vec![m.reset(&regs, rng.u16(), rng.below(200) as i64, &[], &[])];
                for _ in 0..per {
                    let kk = rng.below(19) as usize;
                    let (_, ins) = rand_any_ins(&mut rng, kk);
                    if matches!(ins, Ins::Call { .. } | Ins::Ret | Ins::Jcc { .. }) {
                        continue;
                    }
                    if let Ok((mut a, idx, _)) = assemble_ins(&asm, &ins, &Spelling::default()) {
                        let line = a.out.code[idx].clone();
                        let o = m.step_shared(shared_ref, idx, &mut a.ictx, &line);
                        evs.push(step_event(o, 0, &ins.to_json(), idx, &line));
                    }
                }
                evs
            })
        }).collect();
        hs.into_iter().map(|h| h.join().unwrap()).collect()
    });
    for evs in results {
        sh.count("concurrent-thread-steps", (evs.len() - 1) as u64);
        sh.unit(&evs);
    }
}

// ---------------------------------------------------------------------------------------------
// C15 (library half): arbitrary strings given directly to the preprocessor, data loader and interpreter
// ---------------------------------------------------------------------------------------------
fn fuzz_case(seed: u64, k: usize) -> (&'static str, Vec<u8>) {
    let mut rng = Rng::new(seed.wrapping_mul(1_000_003).wrapping_add(k as u64));
    let programs: [&str; 6] = [
        "x: db 5\ny: dw [3 , 4]\nz: db \"hi\"\nstart:\nmov ax, word y\nadd al, byte x\nprint reg\n",
        "macro m(a, b) -> mov a, b inc a <-\ndef f {\ninc bx\n}\nstart:\nm(ax, 7)\ncall f\nl1: loop l1\nint 3\n",
        "set 0x100\nv: dw 0xFFFF\nstart:\nmov cx, 3\nrep movs byte\njmp e\nprint mem 0 -> 16\ne: hlt\n",
        "start:\nmov byte es [bx, si, -3], 0b101\nxchg ax, word [bp]\nshl ax, cl\nlea si, word [di, 4]\n",
        "start:\nprint mem :5\nprint mem 0x10:4\nprint flags\n",
        "a: db [0]\nstart:\nmov ax, offset a\npush ax\npop word a\n",
    ];
    let data_lines: [&str; 6] = ["set 5", "db 7", "db [0 , 3]", "dw \"ab\"", "dw -5", "db [300]"];
    let code_lines: [&str; 10] = ["mov ax,word y", "add al, byte [bx,si,0]", "rep movs byte", "jmp l", "print reg", "int 33", "xchg word es:[bx] ,ax", "sal byte [0],255", "ret", "lea ax , word [bp,2]"];
    // lines naming labels of every kind in every role (the context of fuzz_one holds data labels x, y, code labels l,
    // start and the procedure f): the first cases are these lines as they are, later ones are mutated
    let role_lines: [&str; 26] = ["mov ax,word l", "inc word start", "push word l", "pop word start", "mov al,byte l", "not byte start", "add word l,1", "sal word start,cl",
        "mov es,word l", "xchg word l ,ax", "lea bx,word l", "mul byte start", "jmp y", "jz x", "loop y", "call y", "call l", "call start", "jmp f", "call nosuch", "jmp nosuch",
        "mov ax,word nosuch", "mov al,byte nosuch", "mov ax,word f", "jcxz f", "cmp word y,word x"];
    if k < role_lines.len() {
        return ("interp", role_lines[k].as_bytes().to_vec());
    }
    if rng.below(6) == 0 {
        return ("interp", crate::checks3::mutate_bytes(rng.pick(&role_lines).as_bytes(), &mut rng));
    }
    match rng.below(3) {
        0 => ("pre", crate::checks3::mutate_bytes(rng.pick(&programs).as_bytes(), &mut rng)),
        1 => ("data", crate::checks3::mutate_bytes(rng.pick(&data_lines).as_bytes(), &mut rng)),
        _ => ("interp", crate::checks3::mutate_bytes(rng.pick(&code_lines).as_bytes(), &mut rng)),
    }
}

fn fuzz_one(parser: &str, input: &[u8], asm: &Asm, mach: &mut Mach) -> &'static str {
    let text = match std::str::from_utf8(input) {
        Ok(s) => s.to_string(),
        Err(_) => String::from_utf8_lossy(input).to_string(), // the library takes &str: invalid UTF-8 cannot reach it
    };
    match parser {
        "pre" => match asm.assemble(&text) { Ok(_) => "ok", Err(e) if e.starts_with("PANIC") => "panic", Err(_) => "err" },
        "data" => {
            let dp = emulator_8086_lib::DataParser::new();
            let mut ctr = 0usize;
            let vm = &mut mach.vm;
            match std::panic::catch_unwind(std::panic::AssertUnwindSafe(|| dp.parse(vm, &mut ctr, &text).is_ok())) { Ok(true) => "ok", Ok(false) => "err", Err(_) => "panic" }
        }
        _ => {
            let mut ctx = emulator_8086_lib::InterpreterContext::default();
            ctx.call_stack = vec![1];
            ctx.fn_map.insert("f".to_string(), 0);
            use emulator_8086_lib::{Label, LabelType};
            ctx.label_map.insert("x".to_string(), Label::new(LabelType::DATA, 0, 0));
            ctx.label_map.insert("y".to_string(), Label::new(LabelType::DATA, 8, 1));
            ctx.label_map.insert("l".to_string(), Label::new(LabelType::CODE, 20, 0));
            ctx.label_map.insert("start".to_string(), Label::new(LabelType::CODE, 30, 1));
            match mach.step_fast(0, &mut ctx, &text) { ("PANIC", _) => "panic", ("ERR", _) => "err", _ => "ok" }
        }
    }
}

/// child: `vh fuzz <seed> <from> <total> <out>`
pub fn fuzz_child(seed: u64, from: usize, total: usize, out: &str) {
    use std::io::Write;
    let asm = Asm::new();
    let mut mach = Mach::new();
    let mut f = std::fs::OpenOptions::new().create(true).append(true).open(out).unwrap();
    for k in from..total {
        let (parser, input) = fuzz_case(seed, k);
        let t0 = std::time::Instant::now();
        let outcome = fuzz_one(parser, &input, &asm, &mut mach);
        let head: String = String::from_utf8_lossy(&input[..input.len().min(160)]).to_string();
        writeln!(f, "{}", json!({"ev":"parse","parser":parser,"outcome":outcome,"k":k,"ms":t0.elapsed().as_millis() as u64,"len":input.len(),"input":head})).unwrap();
        f.flush().unwrap();
    }
}

pub fn gen_fuzz(sh: &mut Shards, seed: u64, total: usize, workdir: &str) {
    let exe = std::env::current_exe().unwrap();
    let outp = format!("{}/fuzz_events.ndjson", workdir);
    let _ = std::fs::remove_file(&outp);
    let done = |p: &str| std::fs::read_to_string(p).map(|s| s.lines().count()).unwrap_or(0);
    let mut from = 0usize;
    let mut extra: Vec<Value> = Vec::new();
    while from < total {
        let mut child = std::process::Command::new(&exe).arg("fuzz").arg(seed.to_string()).arg(from.to_string()).arg(total.to_string()).arg(&outp)
            .stdout(std::process::Stdio::null()).stderr(std::process::Stdio::null()).spawn().unwrap();
        let base = done(&outp);
        let mut last = base;
        let mut last_t = std::time::Instant::now();
        let mut hung = false;
        let status = loop {
            match child.try_wait() {
                Ok(Some(st)) => break st.code().unwrap_or(-1),
                Ok(None) => {
                    let n = done(&outp);
                    if n != last { last = n; last_t = std::time::Instant::now(); }
                    if last_t.elapsed() > std::time::Duration::from_secs(30) { hung = true; let _ = child.kill(); let _ = child.wait(); break -2; }
                    std::thread::sleep(std::time::Duration::from_millis(20));
                }
                Err(_) => break -3,
            }
        };
        let completed = from + (done(&outp) - base);
        if completed >= total {
            break;
        }
        let (parser, input) = fuzz_case(seed, completed);
        let head: String = String::from_utf8_lossy(&input[..input.len().min(160)]).to_string();
        extra.push(json!({"ev":"parse","parser":parser,"outcome": if hung { "hang" } else { "abort" },"k":completed,"ms":0,"len":input.len(),"input":head,"status":status}));
        from = completed + 1;
    }
    for line in std::fs::read_to_string(&outp).unwrap_or_default().lines() {
        let ev: Value = serde_json::from_str(line).unwrap();
        sh.count(&format!("parse:{}:{}", ev["parser"].as_str().unwrap_or("?"), ev["outcome"].as_str().unwrap_or("?")), 1);
        sh.unit(&[ev]);
    }
    for ev in extra {
        sh.count("parse:child-died", 1);
        sh.unit(&[ev]);
    }
    let _ = std::fs::remove_file(&outp);
}

