//! `vh` - conformance harness binding spec/*.tla to the real emulator_8086 library.
//!   vh gen <PROP> --tier quick|thorough --seed N --out DIR --shards K
//! writes ndjson traces (validated by spec/TraceStep.tla etc.) and DIR/gen_meta.json.
mod alu;
mod ast;
mod checks;
mod checks2;
mod checks3;
mod cli;
mod progs;
mod examples;
mod exec;
mod forms;
mod gen;

fn arg(args: &[String], name: &str, def: &str) -> String {
    match args.iter().position(|a| a == name) {
        Some(i) if i + 1 < args.len() => args[i + 1].clone(),
        _ => def.to_string(),
    }
}

fn main() {
    // panics of the code under test are data: keep stderr quiet
    std::panic::set_hook(Box::new(|_| {}));
    let args: Vec<String> = std::env::args().collect();
    if args.len() < 2 {
        eprintln!("usage: vh gen <PROP> [--tier T] [--seed N] [--out DIR] [--shards K]");
        std::process::exit(2);
    }
    match args[1].as_str() {
        "gen" => {
            let prop = args[2].clone();
            let tier = arg(&args, "--tier", "quick");
            let seed: u64 = arg(&args, "--seed", "1").parse().unwrap_or(1);
            let out = arg(&args, "--out", "/verif/work/tmp");
            let shards: usize = arg(&args, "--shards", "16").parse().unwrap_or(16);
            let hist = arg(&args, "--histories", "");
            checks::generate(&prop, &tier, seed, &out, shards, if hist.is_empty() { None } else { Some(hist.as_str()) });
        }
        "fuzz" => {
            let seed: u64 = args[2].parse().unwrap_or(1);
            let from: usize = args[3].parse().unwrap_or(0);
            let total: usize = args[4].parse().unwrap_or(0);
            checks2::fuzz_child(seed, from, total, &args[5]);
        }
        "macros" => {
            let from: usize = args[4].parse().unwrap_or(0);
            checks2::macros_child(&args[2], &args[3], from);
        }
        "chain" => {
            let d: usize = args[2].parse().unwrap_or(1);
            checks2::chain_child(d);
        }
        other => {
            eprintln!("unknown subcommand {}", other);
            std::process::exit(2);
        }
    }
}
