fn main() { let vm = emulator_8086_lib::VM::new(); println!("{}", serde_json::json!({"cs": vm.arch.cs})); }
