#!/usr/bin/env python3
"""Summarise the verdicts left in work/<prop> by a run with VERIF_KEEP=1 (triage helper)."""
import json, glob, sys, collections
prop = sys.argv[1]
limit = int(sys.argv[2]) if len(sys.argv) > 2 else 2
groups = collections.OrderedDict()
for vf in sorted(glob.glob('/verif/work/%s/verdict_*.ndjson' % prop)):
    tf = vf.replace('verdict_', 'trace_')
    evs = [json.loads(l) for l in open(tf)]
    for l in open(vf):
        v = json.loads(l)
        e = evs[v['l'] - 1]
        if e['ev'] == 'step':
            a = e['ast']
            w = v['why']
            what = ','.join(k for k in ('regs', 'flags', 'mem', 'out', 'stack') if w.get(k) not in ([], {}, '', None))
            key = (v['kind'], v['dev'], 'step', a.get('cls'), a.get('op', a.get('mn', '')), a.get('w', ''), what, e['out'])
        else:
            key = (v['kind'], v['dev'], e['ev'], e.get('op', e.get('mn', '')), e.get('w', ''), e.get('cl', ''))
        groups.setdefault(key, []).append((v, e))
for key, items in groups.items():
    print(len(items), key)
    for v, e in items[:limit]:
        if e['ev'] == 'step':
            print('     src=%r line=%r out=%s err=%s' % (e['src'].strip().split('\n')[-1], e['line'], e['out'], e['err'][:80]))
            print('     why=%s' % json.dumps({k: x for k, x in v['why'].items() if x not in ([], {}, '')})[:300])
        else:
            ks = v['why']; k = ks[0] - 1
            d = {a: (b[k] if isinstance(b, list) and len(b) > k else b) for a, b in e.items() if a != 'fb'}
            print('     %d bad; first: %s' % (len(ks), json.dumps(d)[:260]))
