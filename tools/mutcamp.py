#!/usr/bin/env python3
"""Automated mutation campaign (development aid, not a registered check).

Generates small syntactic changes of the emulator's sources (a relational operator, a constant, a mask, a register
name, a flag name, a forgotten wrap), applies each to a scratch worktree of /repo (never to /repo itself), keeps those
that still compile and pass the 68 pinned tests, and runs the quick checks of the properties the changed file can
affect against that worktree (VERIF_REPO development mode).  A change no check reports is a *survivor*: either it
does not change behaviour any property speaks about (equivalent / out of scope) or it is a hole in the workloads.

usage: mutcamp.py --seed N --count K [--files a,b,...] [--out /verif/mutation/results.jsonl]
"""
import argparse, json, os, random, re, subprocess, sys, time, hashlib

WT = "/tmp/wt/camp"
ENV = dict(os.environ, CARGO_NET_OFFLINE="true")

FILES = {
    "src/lib/instructions/arithmetic.rs":        ["C01", "C03", "C09"],
    "src/lib/instructions/bit_manipulation.rs":  ["C02", "C09"],
    "src/lib/instructions/string.rs":            ["C07", "C09"],
    "src/lib/instructions/data_transfer.rs":     ["C05", "C09"],
    "src/lib/util/address.rs":                   ["C04", "C09", "C05"],
    "src/lib/util/flag_util.rs":                 ["C01", "C02", "C05", "C06", "C17", "C20", "C07"],
    "src/lib/util/data_util.rs":                 ["C04", "C05", "C01"],
    "src/lib/util/interpreter_util.rs":          ["C08", "C01", "C19"],
    "src/lib/util/preprocessor_util.rs":         ["C16", "C08", "C19", "C13", "C12"],
    "src/lib/preprocessor/lexer_helper.rs":      ["C16", "C14"],
    "src/lib/vm.rs":                             ["C19", "C09"],
    "src/lib/arch.rs":                           ["C19", "C20", "C05", "C06", "C01", "C07", "C17"],
    "src/lib/interpreter/interpreter.lalrpop":   None,     # decided per line (section of the grammar)
    "src/lib/preprocessor/preprocessor.lalrpop": ["C10", "C11", "C14", "C13", "C12", "C16", "C08"],
    "src/lib/data_parser/data_parser.lalrpop":   ["C12", "C10"],
    "src/driver/driver.rs":                      ["C08", "C20", "C16", "C14", "C18", "C19"],
    "src/driver/interrupts.rs":                  ["C18", "C16"],
    "src/driver/user_interface.rs":              ["C20", "C17"],
    "src/driver/print.lalrpop":                  ["C17", "C20", "C15"],
    "src/driver/preprocess.rs":                  ["C16", "C14", "C08"],
    "src/driver/error_helper.rs":                ["C16"],
}

REGS = ["ax", "bx", "cx", "dx", "si", "di", "bp", "sp", "ds", "es", "ss", "cs"]
FLAGS = ["CARRY", "PARITY", "AUX_CARRY", "ZERO", "SIGN", "TRAP", "INTERRUPT", "DIRECTION", "OVERFLOW"]


def interp_props(lines, i):
    """properties for a line of interpreter.lalrpop: by the keywords of the surrounding production"""
    ctx = " ".join(lines[max(0, i - 40): i + 3]).lower()
    ps = []
    def add(*x):
        for p in x:
            if p not in ps:
                ps.append(p)
    near = " ".join(lines[max(0, i - 12): i + 3]).lower()
    for src in (near, ctx):
        if re.search(r"word_add|byte_add|adc|sbb|word_sub|byte_sub|cmp|\binc\b|\bdec\b|\bneg\b|binary_arithmetic|unary_arith", src): add("C01")
        if re.search(r"mul|div|aaa|aas|daa|das|aam|aad|cbw|cwd", src): add("C03")
        if re.search(r"shift|rotate|\bnot\b|logical|\band\b|\bor\b|xor|test", src): add("C02")
        if re.search(r"push|pop|xchg|\bmov\b|lahf|sahf|xlat|\blea\b", src): add("C05", "C04")
        if re.search(r"jmp|jump|loop|jcxz|call|ret", src): add("C06", "C08")
        if re.search(r"movs|lods|stos|cmps|scas|rep", src): add("C07")
        if re.search(r"\bint\b|print|hlt|stc|clc|cmc|std|cld|sti|cli", src): add("C05", "C08", "C18")
    add("C04", "C09", "C10", "C11")
    return ps[:7]


def candidates(path, text):
    """yield (line index, old line, new line, operator name)"""
    lines = text.split("\n")
    in_test = False
    for i, ln in enumerate(lines):
        s = ln.strip()
        if s.startswith("#[cfg(test)]") or s.startswith("mod tests") or "#[test]" in s:
            in_test = True
        if in_test or s.startswith("//") or s.startswith("use ") or "emu8086_verif" in ln or not s:
            continue
        code = ln.split("//")[0]
        def sub(m, rep, op):
            new = ln[:m.start()] + rep + ln[m.end():]
            if new != ln:
                yield_list.append((i, ln, new, op))
        yield_list = []
        for m in re.finditer(r"<=|>=|==|!=|(?<![<>=-])<(?![<=])|(?<![<>=-])>(?![>=])", code):
            t = m.group(0)
            if t in ("<", ">") and (".lalrpop" in path) and re.search(r"<\w+:|<\w+>|=>|->|\w>\s|@[LR]>", code):
                continue    # grammar brackets, not comparisons
            rep = {"<=": "<", ">=": ">", "==": "!=", "!=": "==", "<": "<=", ">": ">="}[t]
            sub(m, rep, "rel")
        for m in re.finditer(r"wrapping_add|wrapping_sub", code):
            sub(m, "wrapping_sub" if m.group(0) == "wrapping_add" else "wrapping_add", "wrap-op")
        for m in re.finditer(r"(?<=\w|\)) (\+|-) (?=\w|\()", code):
            sub(m, " - " if "+" in m.group(0) else " + ", "plus-minus")
        for m in re.finditer(r"(?<=\w|\)) (&|\|) (?=\w|\(|!)", code):
            sub(m, " | " if "&" in m.group(0) else " & ", "and-or")
        for m in re.finditer(r"&&|\|\|", code):
            sub(m, "||" if m.group(0) == "&&" else "&&", "bool")
        for m in re.finditer(r"<<|>>", code):
            if ".lalrpop" in path and not re.search(r"\d\s*(<<|>>)|(<<|>>)\s*\d", code):
                continue
            sub(m, ">>" if m.group(0) == "<<" else "<<", "shift-dir")
        for m in re.finditer(r"\b0x([0-9a-fA-F]+)\b", code):
            if code[:m.start()].count('"') % 2 == 1:
                continue
            v = int(m.group(1), 16)
            for nv in {v ^ 1, v ^ (1 << max(0, v.bit_length() - 1)), v >> 1}:
                if nv != v and nv >= 0:
                    sub(m, "0x%X" % nv, "hexconst")
        for m in re.finditer(r"(?<![\w.\"{])(\d+)(?![\w.\"}])", code):
            if re.search(r"\"[^\"]*$", code[:m.start()]) and re.search(r"^[^\"]*\"", code[m.end():]):
                continue
            v = int(m.group(1))
            for nv in (v + 1, v - 1):
                if nv >= 0:
                    sub(m, str(nv), "intconst")
        for m in re.finditer(r"\barch\.(ax|bx|cx|dx|si|di|bp|sp|ds|es|ss|cs)\b", code):
            r = m.group(1)
            alt = REGS[(REGS.index(r) + 1 + (i % 3)) % len(REGS)]
            sub(m, "arch." + alt, "reg")
        for m in re.finditer(r"\bFlags::(\w+)\b", code):
            f = m.group(1)
            if f in FLAGS:
                sub(m, "Flags::" + FLAGS[(FLAGS.index(f) + 1 + (i % 4)) % len(FLAGS)], "flag")
        for m in re.finditer(r"\b(Byte|Word)Reg::(\w+)\b", code):
            names = {"Byte": ["AL", "AH", "BL", "BH", "CL", "CH", "DL", "DH"],
                     "Word": ["AX", "BX", "CX", "DX", "SI", "DI", "BP", "SP", "DS", "ES", "SS", "CS"]}[m.group(1)]
            if m.group(2) in names and "=>" in code:
                sub(m, "%sReg::%s" % (m.group(1), names[(names.index(m.group(2)) + 1) % len(names)]), "regtable")
        for m in re.finditer(r"inc_addr\(([^,()]+),\s*1\)", code):
            sub(m, "(%s + 1)" % m.group(1), "no-wrap")
        for m in re.finditer(r" % MB\b", code):
            sub(m, "", "no-wrap")
        for m in re.finditer(r"\btrue\b|\bfalse\b", code):
            sub(m, "false" if m.group(0) == "true" else "true", "boolconst")
        for c in yield_list:
            yield c


def sh(cmd, cwd=None, timeout=3600, env=None):
    p = subprocess.run(cmd, cwd=cwd, shell=isinstance(cmd, str), env=env or ENV, stdout=subprocess.PIPE,
                       stderr=subprocess.STDOUT, text=True, timeout=timeout)
    return p.returncode, p.stdout


def main():
    ap = argparse.ArgumentParser()
    ap.add_argument("--seed", type=int, default=1)
    ap.add_argument("--count", type=int, default=20)
    ap.add_argument("--files", default="")
    ap.add_argument("--out", default="/verif/mutation/results.jsonl")
    ap.add_argument("--minutes", type=float, default=1e9)
    a = ap.parse_args()
    t_end = time.time() + a.minutes * 60
    os.makedirs(os.path.dirname(a.out), exist_ok=True)
    done = set()
    if os.path.exists(a.out):
        for l in open(a.out):
            try:
                done.add(json.loads(l)["id"])
            except Exception:
                pass
    if not os.path.exists(WT):
        rc, out = sh(["git", "-C", "/repo", "worktree", "add", "--detach", WT, "HEAD"])
        if rc != 0:
            print(out); sys.exit(2)
    sh(["git", "-C", WT, "checkout", "--", "."])
    files = [f for f in FILES if not a.files or any(x in f for x in a.files.split(","))]
    cands = []
    for f in files:
        text = open(os.path.join(WT, f)).read()
        lines = text.split("\n")
        for (i, old, new, op) in candidates(f, text):
            if op is None:
                continue
            mid = hashlib.sha1(("%s:%d:%s" % (f, i, new)).encode()).hexdigest()[:10]
            props = FILES[f] if FILES[f] is not None else interp_props(lines, i)
            cands.append((mid, f, i, old, new, op, props))
    rnd = random.Random(a.seed)
    # stratify: the same number of picks per file, so that the two big grammars do not swallow the campaign
    byfile = {}
    for c in cands:
        byfile.setdefault(c[1], []).append(c)
    for f in byfile:
        rnd.shuffle(byfile[f])
    order = []
    while any(byfile.values()) and len(order) < 50 * a.count:
        for f in list(byfile):
            if byfile[f]:
                order.append(byfile[f].pop())
    print("candidates: %d in %d files" % (len(cands), len(files)), flush=True)
    n = 0
    for (mid, f, i, old, new, op, props) in order:
        if n >= a.count or time.time() > t_end:
            break
        if mid in done:
            continue
        path = os.path.join(WT, f)
        text = open(path).read()
        lines = text.split("\n")
        if lines[i] != old:
            continue
        lines[i] = new
        open(path, "w").write("\n".join(lines))
        rec = {"id": mid, "file": f, "line": i + 1, "op": op, "old": old.strip(), "new": new.strip(), "props": props}
        t0 = time.time()
        try:
            rc, out = sh("cargo test --workspace --no-fail-fast --offline 2>&1 | tail -60", cwd=WT, timeout=1800)
            if "could not compile" in out or re.search(r"^error(\[|:)", out, re.M) and "test result" not in out:
                rec["status"] = "stillborn"
            elif re.search(r"test result: FAILED|panicked at|error: test failed|[1-9]\d* failed", out) or "test result: ok" not in out:
                rec["status"] = "killed-by-tests"
            else:
                n += 1
                rec["status"] = "survived"
                rec["checks"] = {}
                for p in props:
                    e = dict(ENV, VERIF_REPO=WT)
                    root = os.path.dirname(os.path.dirname(os.path.abspath(__file__)))
                    rc, out = sh(["python3", os.path.join(root, "verif.py"), "check", p, "--tier", "quick"], cwd=root, timeout=3000, env=e)
                    rec["checks"][p] = rc
                    if rc == 1:
                        rec["status"] = "caught"
                        rec["by"] = p
                        v = [l for l in out.split("\n") if l.startswith("VIOLATION")]
                        rec["nviol"] = len(v)
                        break
                    if rc != 0:
                        rec["status"] = "tool-error"
                        rec["by"] = p
                        rec["tail"] = out[-1500:]
        except subprocess.TimeoutExpired:
            rec["status"] = "timeout"
        rec["secs"] = round(time.time() - t0)
        open(path, "w").write(text)
        with open(a.out, "a") as fo:
            fo.write(json.dumps(rec) + "\n")
        print(json.dumps({k: rec[k] for k in ("id", "file", "line", "op", "status", "secs") if k in rec} | {"by": rec.get("by")}), flush=True)
    sh(["git", "-C", WT, "checkout", "--", "."])


if __name__ == "__main__":
    main()
