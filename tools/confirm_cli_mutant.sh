#!/bin/bash
# usage: confirm_cli_mutant.sh <worktree> <name> <demo command (run in worktree, uses ./target/debug/emulator_8086)>
# confirms: pinned suite passes with the change; prints demo output with and without the change
wt=$1; name=$2; shift; shift
cd $wt || exit 2
export CARGO_NET_OFFLINE=true
git diff --quiet -- src && { git apply MUTANT/patch.diff || exit 2; }
echo "== with change: pinned suite"
cargo test --workspace --no-fail-fast --offline --lib --bins 2>&1 | grep -E "^test result" | head -1
cargo build --offline 2>&1 | grep -E "^error" | head
echo "== with change: demo"
bash -c "$*" > /tmp/demo_with_$name.txt 2>&1; echo "exit=$?" >> /tmp/demo_with_$name.txt
git diff -- src > /tmp/confirm_$name.diff
git apply -R /tmp/confirm_$name.diff
cargo build --offline 2>&1 | grep -E "^error" | head
echo "== without change: demo"
bash -c "$*" > /tmp/demo_without_$name.txt 2>&1; echo "exit=$?" >> /tmp/demo_without_$name.txt
git apply /tmp/confirm_$name.diff
if cmp -s /tmp/demo_with_$name.txt /tmp/demo_without_$name.txt; then echo "DEMO OUTPUT IDENTICAL (not a demonstration)"; else echo "demo output differs:"; diff /tmp/demo_without_$name.txt /tmp/demo_with_$name.txt | head -20; fi
mkdir -p /verif/seeded/$name
git diff -- src > /verif/seeded/$name/patch.diff
cp -r MUTANT/demo /verif/seeded/$name/ 2>/dev/null
cp MUTANT/meta.json /verif/seeded/$name/meta.agent.json
cp /tmp/demo_with_$name.txt /verif/seeded/$name/demo_output_with_change.txt
cp /tmp/demo_without_$name.txt /verif/seeded/$name/demo_output_without_change.txt
echo "== saved to /verif/seeded/$name"
