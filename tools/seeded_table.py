#!/usr/bin/env python3
"""(re)generate the seeded-changes table of DESIGN.md section 10 from /verif/seeded/*/meta.json"""
import json, glob, os, re
rows = []
for d in sorted(glob.glob('/verif/seeded/*')):
    mp = d + '/meta.json'
    if not os.path.exists(mp):
        continue
    m = json.load(open(mp))
    name = os.path.basename(d)
    summ = (m.get('summary') or '').replace('|', '/').replace('\n', ' ')
    need = (m.get('needs_to_manifest') or '').replace('|', '/').replace('\n', ' ')
    rows.append("| %s | %s | %s | %s | %s |" % (name, m['property'], summ[:200], m['result'] + ((": " + m['note']) if m.get('note') else ''), m['checks_run'].replace('|', '/')[:200]))
table = "| change | property | what it does | result | check that decided |\n|---|---|---|---|---|\n" + "\n".join(rows)
p = '/verif/DESIGN.md'
t = open(p).read()
if 'SEEDED_TABLE' in t:
    t = t.replace('SEEDED_TABLE', '<!-- seeded-table-begin -->\n' + table + '\n<!-- seeded-table-end -->')
else:
    t = re.sub(r'<!-- seeded-table-begin -->.*?<!-- seeded-table-end -->', '<!-- seeded-table-begin -->\n' + table.replace('\\', '\\\\') + '\n<!-- seeded-table-end -->', t, flags=re.S)
open(p, 'w').write(t)
print(len(rows), 'rows')
