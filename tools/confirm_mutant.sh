#!/bin/bash
# usage: confirm_mutant.sh <worktree> <name>
# confirms in the scratch worktree: (1) with the change the 68 pinned tests pass, (2) the demo test fails with the
# change, (3) the demo passes without it.  Then copies MUTANT/* to /verif/seeded/<name>/
wt=$1; name=$2
cd $wt || exit 2
export CARGO_NET_OFFLINE=true
git diff --quiet -- src && { echo "no source change in $wt"; git apply MUTANT/patch.diff || exit 2; }
echo "== with change: pinned suite"
cargo test --workspace --no-fail-fast --offline --lib --bins 2>&1 | grep -E "^test result|FAILED|failed" | head
demo=$(ls tests/*.rs 2>/dev/null | head -1)
if [ -n "$demo" ]; then
  t=$(basename $demo .rs)
  echo "== with change: demo $t"
  cargo test --offline --test $t 2>&1 | grep -E "^test result|^test .*(FAILED|ok)" | head
  git diff -- src > /tmp/confirm_$name.diff
  git apply -R /tmp/confirm_$name.diff
  echo "== without change: demo $t"
  cargo test --offline --test $t 2>&1 | grep -E "^test result|^test .*(FAILED|ok)" | head
  git apply /tmp/confirm_$name.diff
fi
mkdir -p /verif/seeded/$name
git diff -- src > /verif/seeded/$name/patch.diff
cp -r MUTANT/demo /verif/seeded/$name/ 2>/dev/null
cp MUTANT/meta.json /verif/seeded/$name/meta.agent.json
echo "== saved to /verif/seeded/$name"
