#!/bin/bash
# usage: runtlc.sh module cfg [workers] [extra...]
m=$1; c=$2; w=${3:-8}; shift; shift; shift
d=/tmp/tlcmeta_$$
timeout 1200 java -XX:+UseParallelGC -Xmx8g -Xss1g -cp /opt/veriftools/tla/tla2tools.jar:/opt/veriftools/tla/CommunityModules-deps.jar tlc2.TLC -workers $w -metadir $d -cleanup -noGenerateSpecTE -config $c $m "$@" 2>&1
rm -rf $d
