#!/usr/bin/env python3
"""Print the prompt given to an independent sub-agent that seeds a property-breaking change.
usage: mutant_prompt.py Cxx <worktree> [variant-hint]"""
import json, sys
pid, wt = sys.argv[1], sys.argv[2]
hint = sys.argv[3] if len(sys.argv) > 3 else ""
p = [json.loads(l) for l in open('/verif/properties.jsonl') if json.loads(l)['id'] == pid][0]
print(f"""You are helping to evaluate a verification tool by seeding a realistic bug into a Rust project.

The project is YJDoc2/8086-Emulator (an Intel 8086 assembly interpreter in Rust: LALRPOP preprocessor/assembler, data loader, interpreter over emulated registers/flags/1 MB memory, and a command-line driver). You have your OWN scratch git worktree of it at {wt} . Work ONLY inside {wt} (and /tmp for scratch output). Do NOT read, list or touch /verif or /repo or /root/.vp - they are out of bounds; your work must be independent of anything there. There is no network; build with `cargo build --offline` / `cargo test --offline` (CARGO_NET_OFFLINE=true). The existing test suite is run with: cd {wt} && cargo test --workspace --no-fail-fast --offline   (68 tests, all pass at the start).

This is the semantic property that must be BROKEN by your change:

  {p['id']} - {p['title']}
  {p['statement']}
  (it is meant to hold over: {p['quantifier']['text']})

Your task: make ONE small, realistic source change (the kind of slip a maintainer could make in a refactor or "optimisation": a wrong mask, an off-by-one, a swapped operand, a missed wrap, a forgotten flag, a stale value, two sites that each look fine alone) to the emulator's Rust / .lalrpop source in {wt} such that
  1. the project still compiles and ALL 68 existing tests still pass, unedited;
  2. the property above is violated, but only for something specific: a particular operand value/count/flag combination, a particular operand form, a multi-step sequence, an unusual input, or two cooperating sites -- NOT something that every ordinary use would expose at once (so do not break the common case);
  3. you provide a demonstration that FAILS with your change and PASSES without it: either a new Rust test file under {wt}/tests/ (integration test using the public library API `emulator_8086_lib`, e.g. Preprocessor/Interpreter/VM, see how src/lib/interpreter/tests/*.rs build a VM and run lines) or a small assembly program plus the exact command and expected/actual output using the CLI binary (`cargo run --offline -- file.s`).
{('Hint on what kind of change to look for this time: ' + hint) if hint else ''}
Rules: do not edit or delete existing tests; do not touch build.rs/Cargo.toml; do not `git commit`; leave the change as uncommitted modifications in the worktree. Keep the change minimal (a few lines). .lalrpop files are compiled by build.rs; the generated .rs parsers are gitignored, do not hand-edit them.

When done, verify yourself: (a) `cargo test --workspace --no-fail-fast --offline` passes all 68 pre-existing tests with the change (your new demo test is expected to fail, so run it separately or check it is the only failure); (b) the demo fails with the change; (c) save the source change with `git diff -- src > /tmp/<yourname>.diff`, undo it with `git apply -R /tmp/<yourname>.diff`, show the demo passes on the original, then `git apply /tmp/<yourname>.diff` to restore the change. Do NOT use `git stash` (the stash is shared between worktrees and other agents work in sibling worktrees).

Write these files:
  {wt}/MUTANT/patch.diff   -- `git diff` of the source change only (not the demo)
  {wt}/MUTANT/demo/        -- the demonstration (test file or .s program + README with the commands and the expected vs. actual output)
  {wt}/MUTANT/meta.json    -- {{"property": "{p['id']}", "summary": "...", "needs_to_manifest": "...what specific input/state/sequence triggers it...", "files_changed": [...], "verified": "...what you ran and saw..."}}
Finally report in a few lines: what you changed, what triggers it, and the verification you ran.""")
