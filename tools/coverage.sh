#!/bin/bash
# Development aid, not a registered check: which lines of /repo do the quick checks execute?
# Builds the harness and the hooked binary from a scratch worktree with the nightly toolchain and
# -C instrument-coverage (VERIF_REPO development mode), runs the quick tier of the given properties
# (default: all), merges the profiles and prints per-file line coverage plus the uncovered regions
# of the hand-written sources.  Everything lives under /tmp/cov and work/alt_*; both are removed at the end
# except /tmp/cov/report.
props=${@:-C01 C02 C03 C04 C05 C06 C07 C08 C09 C10 C11 C12 C13 C14 C15 C16 C17 C18 C19 C20}
BIN=/root/.rustup/toolchains/nightly-x86_64-unknown-linux-gnu/lib/rustlib/x86_64-unknown-linux-gnu/bin
wt=/tmp/wt/cov
rm -rf /tmp/cov; mkdir -p /tmp/cov/prof /tmp/cov/report
git -C /repo worktree remove --force $wt >/dev/null 2>&1
git -C /repo worktree add --detach $wt HEAD >/dev/null 2>&1 || exit 2
export VERIF_REPO=$wt VERIF_DEV_TOOLCHAIN=+nightly VERIF_DEV_RUSTFLAGS="-C instrument-coverage"
export LLVM_PROFILE_FILE=/tmp/cov/prof/%8m.profraw
cd /verif
for p in $props; do
  timeout 3000 python3 verif.py check $p --tier quick 2>&1 | grep -v "^note\|^KNOWN" | tail -1
done
tag=$(python3 -c "r='$wt'; print('alt_' + ''.join(ch if ch.isalnum() else '_' for ch in r)[-40:])")
T=/verif/work/$tag/target
$BIN/llvm-profdata merge -sparse /tmp/cov/prof/*.profraw -o /tmp/cov/all.profdata
objs=""; for o in $T/repo/debug/emulator_8086 $T/harness/release/vh; do [ -x $o ] && objs="$objs -object $o"; done
$BIN/llvm-cov report -instr-profile=/tmp/cov/all.profdata $objs --ignore-filename-regex='(\.cargo|rustc|harness/src|/library/)' > /tmp/cov/report/summary.txt 2>/tmp/cov/report/err.txt
$BIN/llvm-cov show -instr-profile=/tmp/cov/all.profdata $objs --ignore-filename-regex='(\.cargo|rustc|harness/src|/library/)' --show-line-counts-or-regions > /tmp/cov/report/show.txt 2>>/tmp/cov/report/err.txt
cat /tmp/cov/report/summary.txt | cut -c1-200
rm -rf /verif/work/$tag /tmp/cov/prof
git -C /repo worktree remove --force $wt
