#!/usr/bin/env python3
"""mkmeta.py <seeded-name> <property> <caught|missed> <check(s) run> [note]"""
import json, sys, os
name, prop, res, checks = sys.argv[1:5]
note = sys.argv[5] if len(sys.argv) > 5 else ""
d = '/verif/seeded/' + name
a = json.load(open(d + '/meta.agent.json')) if os.path.exists(d + '/meta.agent.json') else {}
m = {"property": prop, "summary": a.get("summary", ""), "needs_to_manifest": a.get("needs_to_manifest", ""),
     "files_changed": a.get("files_changed", []),
     "origin": "independent sub-agent given only the property text and a scratch worktree",
     "confirmed_by_me": "tools/confirm_mutant.sh in the scratch worktree: 68 pinned tests pass with the change; the demo fails with it and passes without it",
     "checks_run": checks, "result": res, "note": note}
json.dump(m, open(d + '/meta.json', 'w'), indent=1)
print(d + '/meta.json')
