#!/usr/bin/env python3
"""Prompt for an independent sub-agent that may choose which property to break.
usage: mutant_prompt_any.py <worktree> <tag> [hint]"""
import json, sys, subprocess
wt, tag = sys.argv[1], sys.argv[2]
hint = sys.argv[3] if len(sys.argv) > 3 else ""
props = [json.loads(l) for l in open('/verif/properties.jsonl')]
base = subprocess.run([sys.executable, '/verif/tools/mutant_prompt.py', 'C01', wt, hint], capture_output=True, text=True).stdout
start = base.index("This is the semantic property that must be BROKEN by your change:")
end = base.index("Your task: make ONE small")
listing = "These are the semantic properties the emulator is supposed to satisfy. CHOOSE ONE of them to break -- pick the one for which you can find a change that a careful reviewer and a thorough property-based test generator would be LEAST likely to notice (an obscure corner of the code, an unusual input class, an interaction nobody thinks of), and say in meta.json which one you chose:\n\n"
for p in props:
    listing += "  %s - %s\n  %s\n  (it is meant to hold over: %s)\n\n" % (p['id'], p['title'], p['statement'], p['quantifier']['text'])
out = base[:start] + listing + base[end:]
out = out.replace('{"property": "C01"', '{"property": "<the id you chose>"').replace("the property above is violated", "the property you chose is violated")
print(out)
