#!/bin/bash
# usage: run_mutant.sh <seeded-name> <prop> [more props...]
# applies /verif/seeded/<name>/patch.diff to a scratch worktree of /repo (never to /repo itself) and runs the quick
# checks against that copy (VERIF_REPO development mode of verif.py); removes the worktree and its build output.
name=$1; shift
wt=/tmp/wt/run_$name
git -C /repo worktree remove --force $wt >/dev/null 2>&1
git -C /repo worktree add --detach $wt HEAD >/dev/null 2>&1 || exit 2
git -C $wt apply /verif/seeded/$name/patch.diff || { git -C /repo worktree remove --force $wt; exit 2; }
for p in "$@"; do
  cd ${VROOT:-/verif} && VERIF_REPO=$wt timeout 3000 python3 verif.py check $p --tier quick > /tmp/mut_${name}_$p.log 2>&1
  rc=$?
  echo "$name $p exit=$rc $(grep -c '^VIOLATION' /tmp/mut_${name}_$p.log) violation lines"
  grep -A1 '^VIOLATION' /tmp/mut_${name}_$p.log | head -4
  grep 'TOOL-ERROR' /tmp/mut_${name}_$p.log | head -2 | cut -c1-300
done
tag=$(python3 -c "import sys; r='$wt'; print('alt_' + ''.join(ch if ch.isalnum() else '_' for ch in r)[-40:])")
rm -rf ${VROOT:-/verif}/work/$tag
git -C /repo worktree remove --force $wt
