#!/bin/bash
# usage: run_mutant.sh <seeded-name> <prop> [more props...]
# applies /verif/seeded/<name>/patch.diff to /repo, runs the quick checks, reverts /repo.
name=$1; shift
cd /repo && git diff --quiet || { echo "/repo is dirty"; exit 2; }
git -C /repo apply /verif/seeded/$name/patch.diff || exit 2
for p in "$@"; do
  cd /verif && timeout 3000 python3 verif.py check $p --tier quick > /tmp/mut_${name}_$p.log 2>&1
  rc=$?
  echo "$name $p exit=$rc $(grep -c '^VIOLATION' /tmp/mut_${name}_$p.log) violation lines"
  grep -A1 '^VIOLATION' /tmp/mut_${name}_$p.log | head -4
  grep 'TOOL-ERROR' /tmp/mut_${name}_$p.log | head -2 | cut -c1-300
done
git -C /repo checkout -- .
git -C /repo status --short | head -3
